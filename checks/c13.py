"""C13 - timers fire exactly on period boundaries however time advances."""
from __future__ import annotations

import common
from common import PY, VERIF, MODEL_DRIVER, RUST_HARNESS

PYDRV = [PY, str(VERIF / "harness" / "py" / "driver.py")]


def gen_cases(ctx):
    rng = ctx.rng
    cases = []  # (en, pm, ps, isr, ops)

    def mk(en, pm, ps, isr, ops):
        cases.append((en, pm, ps, isr, ops))

    thorough = ctx.tier == "thorough"
    # 1. small periods enumerated completely, gap patterns
    prange = range(1, 13)
    gapsets = []
    for pm in prange:
        for ps in prange:
            base = [1, 2, 3, max(pm - 1, 1), pm, pm + 1, 2 * pm, 3 * pm + 1, ps, 2 * ps + 1]
            npat = 6 if thorough else 1
            for _ in range(npat):
                c = 0
                ops = []
                for _ in range(rng.randint(3, 6) if not thorough else 6):
                    c += rng.choice(base)
                    ops.append(f"t:{c}")
                mk(1, pm, ps, rng.choice([0, 0, 0x04, 0xFC, 0xFF]), ops)
                ctx.count("small-period gap pattern")
    # 2. every-cycle ticking (per-cycle exactness), incl. WAIT-like jumps followed by per-cycle
    for _ in range(400 if thorough else 60):
        pm, ps = rng.randint(1, 9), rng.randint(1, 9)
        c = rng.choice([0, 0, rng.randint(0, 50)])
        ops = [f"r:{c}"] if c else []
        for _ in range(rng.randint(10, 40)):
            c += 1
            ops.append(f"t:{c}")
        mk(1, pm, ps, 0, ops)
        ctx.count("every-cycle run")
    # 3. random: large periods, resets, restore points, disabled, zero periods
    for _ in range(6000 if thorough else 600):
        kind = rng.random()
        en = 0 if kind < 0.1 else 1
        pm = 0 if 0.1 <= kind < 0.2 else rng.choice([rng.randint(1, 20), rng.randint(1, 5000), rng.randint(1, 2**31 - 1)])
        ps = 0 if 0.15 <= kind < 0.25 else rng.choice([rng.randint(1, 20), rng.randint(1, 5000), rng.randint(1, 2**31 - 1)])
        c = 0
        ops = []
        for _ in range(rng.randint(1, 12)):
            r = rng.random()
            lim = 3000 * max(1, min(pm or ps or 1, ps or pm or 1))  # keeps the implementations' catch-up loops short
            step = rng.choice([0, 1, 2, rng.randint(0, 3 * max(pm, 1)), rng.randint(0, 3 * max(ps, 1)), rng.randint(0, lim)])
            step = min(step, lim)
            c += step
            if r < 0.75:
                ops.append(f"t:{c}")
            elif r < 0.87:
                ops.append(f"r:{c}")
            else:
                # snapshot-restore point: targets as saved earlier (possibly in the past)
                ops.append(f"n:{max(0, c + rng.randint(-2 * max(pm, 1), 2 * max(pm, 1)))}:{max(0, c + rng.randint(-2 * max(ps, 1), 2 * max(ps, 1)))}")
        mk(en, pm, ps, rng.choice([0, 1, 2, 3, 0x80, 0xFF]), ops)
        ctx.count("random disabled" if not en else ("random zero-period" if pm == 0 or ps == 0 else "random"))
    return cases


def oracle(ctx, name, case, obs, check_next=True):
    """Property clauses evaluated directly on an implementation's observations."""
    en, pm, ps, isr, ops = case
    nm = ns = None
    prev = None
    saved = None
    for op, ob in zip(ops, obs.split(";")):
        f = ob.split(",")
        if len(f) != 5:
            return
        fm, fs, m2, s2, isr2 = int(f[0]), int(f[1]), int(f[2]), int(f[3]), int(f[4])
        kind, *args = op.split(":")
        if kind == "t" and prev is not None:
            c = int(args[0])
            pmn, psn, pisr = prev
            for (lab, p, old, new, fired, bit) in (("MTI", pm, pmn, m2, fm, 1), ("STI", ps, psn, s2, fs, 2)):
                should = bool(en and p > 0 and old <= c)
                if bool(fired) != should:
                    ctx.report([name, "fires_iff_crossed", lab], f"{name}: {lab} fired={fired} but enabled={en} period={p} target={old} cycle={c}", {"case": fmt(case), "op": op})
                if check_next and en and p > 0 and not new > c:
                    ctx.report([name, "target_not_future", lab], f"{name}: {lab} target {new} not after cycle {c}", {"case": fmt(case), "op": op})
                if check_next and p > 0 and (new - old) % p != 0:
                    ctx.report([name, "phase_lost", lab], f"{name}: {lab} target moved {old}->{new}, not a multiple of {p}", {"case": fmt(case), "op": op})
                if check_next and fired and new - p > c:
                    ctx.report([name, "boundary_skipped", lab], f"{name}: {lab} target {new} skips a boundary (cycle {c}, period {p})", {"case": fmt(case), "op": op})
                if fired and not (isr2 & bit):
                    ctx.report([name, "isr_not_set", lab], f"{name}: {lab} fired but ISR={isr2:#x}", {"case": fmt(case), "op": op})
            if (isr2 & ~3) != (pisr & ~3) and not name.endswith("_kb"):
                ctx.report([name, "isr_other_bits"], f"{name}: ISR bits other than MTI/STI changed {pisr:#x}->{isr2:#x}", {"case": fmt(case), "op": op})
        if kind == "S":
            saved = (m2, s2, isr2)
        if kind == "L" and saved is not None and (m2, s2, isr2) != saved:
            ctx.report([name, "rewind_does_not_restore_timer_state"], f"{name}: loading the earlier snapshot into the running machine gives targets/ISR {(m2, s2, isr2)}, saved {saved}", {"case": fmt(case), "op": op})
        if kind == "z" and prev is not None and (m2, s2) != prev[:2]:
            ctx.report([name, "snapshot_restore_moves_timer_target"], f"{name}: save + load moved the timer targets {prev[:2]} -> {(m2, s2)}", {"case": fmt(case), "op": op})
        prev = (m2, s2, isr2)


def rng_choice(ctx, xs):
    return xs[ctx.rng.randrange(len(xs))]


def fmt(case):
    en, pm, ps, isr, ops = case
    return f"{en} {pm} {ps} {isr} " + " ".join(ops)


def firing(line):
    return ";".join(",".join((x.split(",") + ["?"] * 5)[i] for i in (0, 1, 4)) for x in line.split(";"))


def run(ctx):
    ctx.rule = ("timer op sequences (tick/reset/restore) from one PRNG: all period pairs 1..12 x 1..12 with gap patterns, "
                "every-cycle runs, random large periods/disabled/zero; machine WAIT instructions (PCE500Emulator.step -> _simulate_wait) spanning 0..many boundaries with the scheduler's advance() observed; a case is non-trivial when at least one tick fired and one did not; distinct by full case text")
    ctx.trusted += [
        "correspondence harness: harness/py/timer_cmd.py (TimerScheduler + PCE500Emulator._tick_timers), harness/rust/verif-harness/src/timer_cmd.rs (TimerContext::tick_timers/reset), extracted model_driver (ExtrOcamlBasic)",
        "modelled not verified: pce500/scheduler.py advance/reset, timer.rs tick_timers (preserve_phase=true path) / reset; u64 wrap modelled, theorems guarded by c,p < 2^63",
    ]
    ctx.assumptions += ["cycle values and periods below 2^63 (Rust u64 wrapping_add)", "Rust preserve_phase = true (default)", "timer periods non-negative"]
    ok = ctx.prove()
    okm, outm = common.build_model_driver()
    if not okm:
        ctx.broke("model-driver-build", outm[-300:])
    okr, outr = common.build_rust_harness()
    if not okr:
        ctx.broke("rust-harness-build", outr[-600:])
    cases = gen_cases(ctx)
    corpus = VERIF / "corpus" / "C13.txt"
    if corpus.exists():
        for ln in corpus.read_text().splitlines():
            w = ln.split()
            if len(w) >= 5:
                cases.insert(0, (int(w[0]), int(w[1]), int(w[2]), int(w[3]), w[4:]))
    lines = [fmt(c) for c in cases]
    env = common.py_env()
    outs = {}
    errs = {}
    outs["py"], errs["py"] = common.run_sharded(PYDRV, ["timer_py " + l for l in lines], env=env)
    outs["emu"], errs["emu"] = common.run_sharded(PYDRV, ["timer_emu " + l for l in lines], env=env)
    if okr:
        outs["rs"], errs["rs"] = common.run_sharded([str(RUST_HARNESS)], ["timer_rs " + l for l in lines])
    if okm:
        outs["mpy"], errs["mpy"] = common.run_sharded([str(MODEL_DRIVER)], ["timer_py " + l for l in lines])
        outs["mrs"], errs["mrs"] = common.run_sharded([str(MODEL_DRIVER)], ["timer_rs " + l for l in lines])
    for k, e in errs.items():
        if e.strip():
            ctx.notes.append(f"{k} stderr: {e.strip()[-300:]}")
    n = len(lines)
    for k in outs:
        if len(outs[k]) != n:
            ctx.broke(f"correspondence:{k}", f"{len(outs[k])} answers for {n} cases")
            outs[k] = (outs[k] + ["MISSING"] * n)[:n]
    ctx.evaluations = n
    disagreements = 0
    for i, case in enumerate(cases):
        obs = outs["py"][i]
        fl = [x.split(",")[0:2] for x in obs.split(";")] if not obs.startswith("ERR") else []
        ticks = [x for x, op in zip(fl, case[4]) if op.startswith("t:")]
        if any("1" in x for x in ticks) and any(x == ["0", "0"] for x in ticks):
            ctx.nontrivial.add(lines[i])
        # implementation vs its model (full observation incl. targets)
        pairs = [("py", "mpy"), ("emu", "mpy"), ("rs", "mrs")]
        for impl, mod in pairs:
            if impl in outs and mod in outs and outs[impl][i] != outs[mod][i]:
                disagreements += 1
                if disagreements <= 20:
                    ctx.broke(f"correspondence:timer:{impl}-vs-model", f"case `{lines[i]}` impl={outs[impl][i]} model={outs[mod][i]}")
        # Python vs Rust firing sequences (property clause; also theorem C13_py_rs_same_firing)
        if "rs" in outs and firing(outs["py"][i]) != firing(outs["rs"][i]):
            ctx.report(["py_rs_firing_differs"], "Python scheduler and Rust timer fire differently on the same tick sequence", {"case": lines[i], "py": outs["py"][i], "rs": outs["rs"][i]})
        for nm in ("py", "emu", "rs"):
            if nm in outs:
                if outs[nm][i].startswith("ERR") or outs[nm][i] == "MISSING":
                    ctx.report([nm, "error"], f"{nm} failed: {outs[nm][i]}", {"case": lines[i]})
                else:
                    oracle(ctx, nm, case, outs[nm][i], check_next=True)
        ctx.traces += 1
    # snapshot-restore points through PCE500Emulator.save_snapshot / load_snapshot (targets in the future, on the current cycle
    # and in the past - a boundary that is pending while ticking is suppressed): the restored machine keeps the targets, and
    # the clauses above are evaluated on what it does next
    zl = []
    for _ in range(300 if ctx.tier == "thorough" else 40):
        pm, ps = ctx.rng.randint(1, 12), ctx.rng.randint(1, 12)
        c = 0
        ops = []
        for _ in range(ctx.rng.randint(1, 4)):
            c += ctx.rng.randint(1, 2 * pm)
            ops.append(f"t:{c}")
        if ctx.rng.random() < 0.6:
            ops.append(f"n:{max(0, c + ctx.rng.randint(-2 * pm, pm))}:{max(0, c + ctx.rng.randint(-2 * ps, ps))}")
        ops.append("z")
        for _ in range(ctx.rng.randint(2, 6)):
            c += ctx.rng.choice([0, 1, 1, 2, pm, ps])
            ops.append(f"t:{c}")
        zl.append((1, pm, ps, 0, ops))
    wl = []
    # rewinds: save, run the same machine on across at least one boundary (status bits left unacknowledged), load the saved
    # snapshot back into that machine, and cross the next boundaries: the clauses above hold for what it does then
    for _ in range(300 if ctx.tier == "thorough" else 40):
        pm, ps = ctx.rng.randint(1, 12), ctx.rng.randint(1, 12)
        c = 0
        ops = []
        for _ in range(ctx.rng.randint(0, 3)):
            c += ctx.rng.randint(1, 2 * pm)
            ops.append(f"t:{c}")
        ops.append("S")
        c0 = c
        for _ in range(ctx.rng.randint(1, 4)):
            c += ctx.rng.choice([1, pm, ps, pm + ps])
            ops.append(f"t:{c}")
        ops.append("L")
        c = c0
        for _ in range(ctx.rng.randint(2, 6)):
            c += ctx.rng.choice([0, 1, 1, 2, pm, ps])
            ops.append(f"t:{c}")
        wl.append((1, pm, ps, ctx.rng.choice([0, 0, 0, 1, 2, 0x80]), ops))
    nz = len(zl)
    zl = zl + wl
    zo, ze = common.run_sharded(PYDRV, ["timer_emu " + fmt(c) for c in zl], env=env)
    if ze.strip():
        ctx.notes.append(f"timer_emu (restore points) stderr: {ze.strip()[-300:]}")
    zo = (zo + ["MISSING"] * len(zl))[:len(zl)]
    for case, o in zip(zl, zo):
        ctx.evaluations += 1
        ctx.traces += 1
        if o.startswith("ERR") or o == "MISSING":
            ctx.report(["emu", "error"], f"emu failed on a restore-point case: {o}", {"case": fmt(case)})
        else:
            oracle(ctx, "emu", case, o, check_next=True)
            ctx.nontrivial.add("z:" + fmt(case))
    ctx.count("machine snapshot-restore cases", nz)
    ctx.count("machine rewind cases (load into the running machine)", len(zl) - nz)
    zl = zl[:nz]
    # the same restore points on the Rust timer: snapshot_info applied to a context that was configured with other periods
    # before (so a field the loader fails to overwrite shows), including switched-off (zero-period) timers
    if okr:
        rl = []
        for case in zl:
            en, pm, ps, isr, ops = case
            k = ctx.rng.random()
            rl.append((1, 0 if k < 0.25 else pm, 0 if 0.15 < k < 0.4 else ps, 0, ops))
        ro, re_ = common.run_sharded([str(RUST_HARNESS)], ["timer_rs " + fmt(c) for c in rl])
        if re_.strip():
            ctx.notes.append(f"timer_rs (restore points) stderr: {re_.strip()[-300:]}")
        ro = (ro + ["MISSING"] * len(rl))[:len(rl)]
        for case, o in zip(rl, ro):
            ctx.evaluations += 1
            ctx.traces += 1
            if o.startswith("ERR") or o == "MISSING":
                ctx.report(["rs", "error"], f"rs failed on a restore-point case: {o}", {"case": fmt(case)})
            else:
                oracle(ctx, "rs", case, o, check_next=True)
        ctx.count("rust snapshot-restore cases", len(rl))
        # the path CoreRuntime::step uses: tick_timers_with_keyboard, with a key event on every main-timer scan and the
        # firmware acknowledging the status register now and then - a firing still sets its status bit
        kl = []
        for _ in range(300 if ctx.tier == "thorough" else 40):
            pm, ps = ctx.rng.randint(1, 9), ctx.rng.randint(1, 9)
            c = 0
            ops = []
            for _ in range(ctx.rng.randint(6, 20)):
                if ctx.rng.random() < 0.3:
                    ops.append("a")
                c += ctx.rng.choice([1, 1, 1, 2, pm, ps])
                ops.append(f"t:{c}")
            kl.append((1, pm, ps, ctx.rng.choice([0, 4]), ops))
        ko, ke = common.run_sharded([str(RUST_HARNESS)], ["timer_rs_kb " + fmt(c) for c in kl])
        if ke.strip():
            ctx.notes.append(f"timer_rs_kb stderr: {ke.strip()[-300:]}")
        ko = (ko + ["MISSING"] * len(kl))[:len(kl)]
        for case, o in zip(kl, ko):
            ctx.evaluations += 1
            ctx.traces += 1
            if o.startswith("ERR") or o == "MISSING":
                ctx.report(["rs", "error"], f"rs failed on a keyboard-tick case: {o}", {"case": fmt(case)})
            else:
                oracle(ctx, "rs_kb", case, o, check_next=True)
        ctx.count("rust tick-with-keyboard cases", len(kl))
    # WAIT on the machine: the cycle counter advances through PCE500Emulator.step -> _simulate_wait; every boundary inside the
    # WAIT must fire exactly once, on the boundary cycle (the scheduler's advance() is observed, not replaced)
    wl = []
    for _ in range(300 if ctx.tier == "thorough" else 40):
        pm = rng_choice(ctx, [ctx.rng.randint(1, 12), ctx.rng.randint(13, 300), 2048])
        ps = rng_choice(ctx, [ctx.rng.randint(1, 12), ctx.rng.randint(13, 300), 512])
        cnt = rng_choice(ctx, [1, 2, ctx.rng.randint(1, 3 * max(pm, ps) + 5), ctx.rng.randint(1, 6000)])
        wl.append(f"{pm} {ps} {ctx.rng.randint(0, 3)} {cnt}")
    # the same with the whole run observed (NOPs before and after the WAIT are single-instruction steps)
    for _ in range(200 if ctx.tier == "thorough" else 30):
        pm, ps = ctx.rng.randint(2, 12), ctx.rng.randint(2, 12)
        wl.append(f"{pm} {ps} {ctx.rng.randint(0, 6)} {ctx.rng.randint(1, 3 * max(pm, ps))} all")
    if ctx.tier == "thorough":
        wl.append("2048 512 0 0")
    wo, we = common.run_sharded(PYDRV, ["timer_wait " + l for l in wl], env=env)
    if we.strip():
        ctx.notes.append(f"timer_wait stderr: {we.strip()[-300:]}")
    wo = (wo + ["MISSING"] * len(wl))[:len(wl)]
    for l, o in zip(wl, wo):
        ctx.evaluations += 1
        ctx.traces += 1
        parts = o.split("|")
        if len(parts) != 4:
            ctx.report(["emu", "wait_error"], f"timer_wait {l}: {o[:120]}", {"case": "timer_wait " + l})
            continue
        pm, ps = int(l.split()[0]), int(l.split()[1])
        c0, c1, m0, s0, last = (int(x) for x in parts[0].split(","))
        if c1 - c0 < int(l.split()[3] or 0):
            ctx.report(["emu", "wait_cycles_lost"], f"WAIT with I={l.split()[3]} advanced the cycle counter by {c1 - c0}", {"case": "timer_wait " + l, "answer": o[:400]})
        if last < c1 - 1:
            ctx.report(["emu", "wait_cycles_not_ticked"], f"WAIT over cycles {c0}..{c1}: the timers were last ticked at cycle {last}", {"case": "timer_wait " + l, "answer": o[:400]})
        nm, ns, isr, ireg = (int(x) for x in parts[3].split(","))
        for lab, p, t0, got, nxt, bit in (("MTI", pm, m0, parts[1], nm, 1), ("STI", ps, s0, parts[2], ns, 2)):
            want = list(range(t0, last + 1, p)) if t0 > c0 else None
            gotl = [int(x) for x in got.split(",") if x]
            if want is None:
                continue
            if gotl != want:
                ctx.report(["emu", "wait_boundaries", lab], f"WAIT over cycles {c0}..{c1} (timers ticked up to {last}): {lab} (period {p}, target {t0}) fired at {gotl[:8]}{'...' if len(gotl) > 8 else ''} ({len(gotl)} firings), boundaries are {want[:8]}{'...' if len(want) > 8 else ''} ({len(want)})",
                           {"case": "timer_wait " + l, "answer": o[:400]})
            if want and not (isr & bit):
                ctx.report(["emu", "wait_isr_not_set", lab], f"WAIT crossed a {lab} boundary but ISR={isr:#x}", {"case": "timer_wait " + l, "answer": o[:400]})
            if not nxt > last or (nxt - t0) % p:
                ctx.report(["emu", "wait_target", lab], f"after WAIT {lab} target {nxt} (last ticked cycle {last}, period {p}, old target {t0})", {"case": "timer_wait " + l, "answer": o[:400]})
        if len([1 for x in parts[1].split(",") if x]) >= 2 or len([1 for x in parts[2].split(",") if x]) >= 2:
            ctx.nontrivial.add("wait:" + l)
    ctx.count("machine WAIT cases", len(wl))
    ctx.samples = [{"case": lines[i], "python": outs["py"][i], "rust": outs.get("rs", [""] * n)[i], "model": outs.get("mpy", [""] * n)[i]} for i in (0, n // 2, n - 1)]
    ctx.extra["executors"] = sorted(outs)
    ctx.extra["disagreements"] = disagreements
