"""C01 - decoding any byte string is total, deterministic and consistent across consumers."""
from __future__ import annotations

import common
import corr
from checks import decgen


def sibling_cases(rng, cases, outs, limit):
    """For accepted decodes: same consumed bytes, different tails / addresses (second pass)."""
    sib = []
    idx = list(range(len(cases)))
    rng.shuffle(idx)
    for i in idx:
        d = decgen.parse(outs[i]).get("D", ["?"])
        if d[0] != "OK":
            continue
        n = int(d[1])
        hx = cases[i][0]
        head = hx[: 2 * n]
        for tail in rng.sample(decgen.ADVERSARIAL_TAILS, 3) + ["%06x" % rng.randrange(1 << 24), "-"]:
            full = head + (tail if tail != "-" else "")
            sib.append(((full, "-", rng.randrange(1 << 20)), i, n))
        if len(sib) >= limit:
            break
    return sib


def oracle(ctx, case, line):
    """Property clauses on the implementation's own answers for one byte string."""
    hx, filler, addr = case
    nbytes = 0 if hx == "-" else len(hx) // 2
    f = decgen.parse(line)
    d = f.get("D", ["?"])
    for k in ("info", "text", "llil", "emu"):
        v = f.get(k, ["?"])[0]
        if v.startswith("C:") or v == "?":
            opc = hx[:2]
            ctx.report(["consumer_crash", k, v], f"{k} fails with {v} on bytes {hx} (memory continues with {filler})", {"case": decgen.fmt(case), "answer": line})
    eh = f.get("emuh", ["same"])[0]
    if eh != "same":
        ctx.report(["emulator_fetch_depends_on_earlier_decodes"], f"a long-lived Emulator fetches {eh} at {addr} where a fresh one fetches {f.get('emu', ['?'])[0]} (bytes {hx})",
                   {"case": decgen.fmt(case), "answer": line})
    if d[0].startswith("EXC") or d[0] in ("ASSERT", "NOTIMPL"):
        ctx.report(["decode_raises", d[0]], f"decode raises {d[0]} on bytes {hx}", {"case": decgen.fmt(case), "answer": line})
    if d[0] == "OK":
        n = int(d[1])
        if not (1 <= n <= nbytes and n <= 7):
            ctx.report(["length_out_of_bounds"], f"decode length {n} for {nbytes} bytes {hx}", {"case": decgen.fmt(case), "answer": line})
    info = f.get("info", ["?"])[0]
    if info.startswith("A:"):
        n = info.split(":")[1]
        text = f.get("text", ["?"])[0].split(":")
        llil = f.get("llil", ["?"])[0].split(":")
        mn = d[4] if d[0] == "OK" and len(d) > 4 else "?"
        if text[0] != "A" or text[1] != n or (len(text) > 2 and text[2] != mn):
            ctx.report(["info_text_disagree"], f"info accepts {hx} with length {n} but text says {':'.join(text)}", {"case": decgen.fmt(case), "answer": line})
        if llil[0] != "A" or llil[1] != n:
            ctx.report(["info_llil_disagree"], f"info accepts {hx} with length {n} but llil says {':'.join(llil)}", {"case": decgen.fmt(case), "answer": line})
        if filler == "-":
            emu = f.get("emu", ["?"])[0].split(":")
            if emu[0] != "F" or emu[1] != n or emu[2] != mn:
                # memory beyond the string is zero-filled: must not matter for an accepted instruction
                ctx.report(["info_emu_disagree"], f"info accepts {hx} (length {n}, {mn}) but the emulator fetch gives {':'.join(emu)}", {"case": decgen.fmt(case), "answer": line})


def run(ctx):
    ctx.rule = ("structural enumeration {no prefix, 15 PRE bytes, PRE PRE, 0x20} x 256 opcodes x second bytes (all 256 in thorough; mode/register-selecting bytes + random in quick), "
                "random remaining bytes, every truncation length of a sample, adversarial trailing bytes and memory continuations, random and page-edge addresses; second pass: accepted prefixes "
                "re-decoded with mutated tails/addresses and in a different order in the same process; non-trivial = the decoder accepts the bytes; distinct by byte string")
    ctx.trusted += ["translator tr_tables.py (opcode table, allowed-mode rejection kind)",
                    "correspondence harness: harness/py/dec_cmd.py (decode/encode, arch callbacks through binja_test_mocks, Emulator.decode_instruction), extracted model_driver",
                    "modelled not verified: opcodes.py operand decode/encode, iter_decode/fusion/decode, arch.py callbacks (acceptance/length), Emulator.decode_instruction; Binary Ninja is the mock"]
    ok, out = common.run_translator("tr_tables", ["Tables.v"])
    if not ok:
        ctx.broke("translator:tr_tables", out.strip()[-300:])
    ctx.prove()
    okm, _ = corr.build_all(ctx, need_rust=False)
    rng = ctx.rng
    cases = decgen.structural_cases(rng, ctx.tier)
    corpus = common.VERIF / "corpus" / "C01.txt"
    if corpus.exists():
        for ln in corpus.read_text().splitlines():
            w = ln.split()
            if len(w) == 3:
                cases.insert(0, (w[0], w[1], int(w[2])))
    # history: shuffle, and repeat a 5% sample later in the same process
    rng.shuffle(cases)
    rep = rng.sample(range(len(cases)), max(1, len(cases) // 20))
    order = list(range(len(cases))) + rep
    lines = [decgen.fmt(cases[i]) for i in order]
    streams = {"py": ("py", "dec")}
    if okm:
        streams["model"] = ("model", "dec")
    outs = corr.run_streams(ctx, lines, streams)
    raw = outs["py"]
    outs["py"] = [decgen.strip_history(l) for l in raw]       # the emuh= field is the harness's own history probe, not part of the model's answer
    corr.compare(ctx, "decode", lines, outs, [("py", "model")])
    py = raw
    first = {}
    for pos, i in enumerate(order):
        ctx.evaluations += 1
        if i in first:
            if py[pos] != py[first[i]]:
                ctx.report(["history_dependent"], f"the same bytes decode differently after other decodes in the same process: {lines[pos]}", {"case": lines[pos], "first": py[first[i]], "later": py[pos]})
            continue
        first[i] = pos
        oracle(ctx, cases[i], py[pos])
        d = decgen.parse(py[pos]).get("D", ["?"])
        ctx.count("D=" + d[0])
        if d[0] == "OK":
            ctx.nontrivial.add(cases[i][0])
        ctx.traces += 1
    # second pass: trailing bytes / address independence on the implementation
    base_out = [py[first[i]] for i in range(len(cases))]
    sib = sibling_cases(rng, cases, base_out, 40000 if ctx.tier == "thorough" else 6000)
    slines = [decgen.fmt(s[0]) for s in sib]
    souts = corr.run_streams(ctx, slines, streams)
    sraw = souts["py"]
    souts["py"] = [decgen.strip_history(l) for l in sraw]
    corr.compare(ctx, "decode-siblings", slines, souts, [("py", "model")])
    for (scase, i, n), ans in zip(sib, souts["py"]):
        ctx.evaluations += 1
        a = decgen.parse(base_out[i])
        b = decgen.parse(ans)
        oracle(ctx, scase, ans)
        da, db = a.get("D", ["?"]), b.get("D", ["?"])
        lone_pre = da[0] == "OK" and da[4].startswith("PRE") and da[2] == "-"
        if da != db:
            if lone_pre:
                ctx.report(["lone_pre_depends_on_tail"], f"a lone prefix byte decodes differently depending on the bytes after it: {cases[i][0]} vs {scase[0]}", {"base": decgen.fmt(cases[i]), "sibling": decgen.fmt(scase), "base_answer": base_out[i], "sibling_answer": ans})
            else:
                ctx.report(["result_depends_on_trailing_bytes_or_address"], f"decode of the same first {n} bytes changes with trailing bytes/address: {cases[i][0]} -> {da[:2]}, {scase[0]} -> {db[:2]}", {"base": decgen.fmt(cases[i]), "sibling": decgen.fmt(scase), "base_answer": base_out[i], "sibling_answer": ans})
        elif not lone_pre and any(a.get(k) != b.get(k) for k in ("info", "text", "llil")):
            ctx.report(["consumer_depends_on_trailing_bytes_or_address"], f"a callback answers differently for the same instruction bytes: {cases[i][0]} vs {scase[0]}", {"base_answer": base_out[i], "sibling_answer": ans, "base": decgen.fmt(cases[i]), "sibling": decgen.fmt(scase)})
    ctx.samples = [{"case": lines[k], "python": py[k], "model": outs.get("model", py)[k]} for k in (0, 1, 2)]
