"""C10 - assembling a program lays out code, data and labels consistently."""
from __future__ import annotations

import corr

SECS = {"code": 0, "text": 1, "data": 2, "bss": 3}
# (template, size, kind): {n8}/{n16}/{n20} literals; {L} any label (20-bit value); {N} label on the statement's own page
INSTR = [("NOP", 1, ""), ("RET", 1, ""), ("SC", 1, ""), ("MV A, {n8}", 2, ""), ("MV BA, {n16}", 3, ""), ("MV X, {L}", 4, "L"),
         ("MV Y, {n20}", 4, ""), ("ADD A, {n8}", 2, ""), ("INC A", 2, ""), ("CMP A, {n8}", 2, ""), ("MV A, [{L}]", 4, "L"),
         ("MV [{L}], A", 4, "L"), ("JPF {L}", 4, "L"), ("CALLF {L}", 4, "L"), ("JP {N}", 3, "N"), ("CALL {N}", 3, "N"),
         ("JPZ {N}", 3, "N"), ("JR +{n8}", 2, ""), ("JRNZ -{n8}", 2, ""), ("MV (BP+{n8}), {n8}", 4, ""), ("MV A, (BP+{n8})", 3, ""),
         ("PUSHU A", 1, ""), ("POPU BA", 1, ""), ("MV (0x10), (0x20)", 4, ""), ("EX A, B", 1, ""), ("WAIT", 1, ""),
         # the same opcodes in forms of another length (no prefix / no displacement byte)
         ("MV A, ({m8})", 2, ""), ("MV ({m8}), {n8}", 3, ""), ("MV A, (PX+{n8})", 3, ""), ("MV A, [X]", 2, ""), ("MV A, [X+{n8}]", 3, ""),
         ("MV [Y-{n8}], A", 3, ""), ("MV [Y], A", 2, ""), ("ADD A, ({m8})", 2, ""), ("ADD A, (BP+PX)", 2, ""),
         # memory-indirect forms: the internal-memory mode nested inside the operand decides whether an n byte is emitted
         ("MV A, [({m8})]", 3, ""), ("MV A, [(BP+PX)]", 2, ""), ("MV [({m8})], A", 3, ""), ("MV [(BP+PX)], A", 2, ""),
         ("MV A, [({m8})+{n8}]", 4, ""), ("MV A, [(BP+PX)+{n8}]", 3, ""), ("MV BA, [({m8})]", 3, ""), ("MV BA, [(BP+PX)]", 2, ""),
         ("MV X, [(BP+{n8})]", 3, ""), ("MV X, [(BP+PX)]", 2, "")]
DATA = [("defb {n8}", 1, ""), ("defb {n8}, {n8}, {n8}", 3, ""), ("defw {n16}", 2, ""), ("defw {L16}, {n16}", 4, "L"),
        ("defl {L}", 3, "L"), ("defl {n20}, {L}", 6, "L"), ("defs {k}", None, ""), ('defm "{str}"', None, "")]


def gen_program(rng, idx, adversarial):
    """-> dict(lines=[(label|None, text|None, kind, size, needs)], expect)"""
    nlab = rng.randint(1, 6)
    labels = [f"L{idx}_{i}" for i in range(nlab)]
    unplaced = labels[:]
    rng.shuffle(unplaced)
    lines = []
    org = {"code": 0, "data": 0x80000, "bss": 0x90000}
    cur = "code"
    nstmt = rng.randint(3, 14) if rng.random() > 0.04 else 0      # now and then a program of labels only
    used_org = 0x1000
    for k in range(nstmt):
        r = rng.random()
        label = unplaced.pop() if unplaced and rng.random() < 0.5 else None
        if r < 0.10:
            cur = rng.choice(["code", "data", "bss", "code"])
            lines.append((label, f"SECTION {cur}", ("S", SECS[cur]), 0))
        elif r < 0.20 and cur != "bss":
            used_org += rng.choice([0x100, 0x1000, 0x10000, 0x234])
            base = {"code": 0, "data": 0x80000}[cur]
            # the literal is written in hexadecimal or in decimal (both are number literals of the grammar)
            lit = f"{base + used_org:#x}" if rng.random() < 0.6 else str(base + used_org)
            lines.append((label, f".ORG {lit}", ("O", base + used_org), 0))
        elif r < 0.25 and adversarial:
            lines.append((label, f".ORG {rng.choice(labels)}", ("Y", None), 0))
        elif r < 0.70 and cur == "code":
            t, size, need = rng.choice(INSTR)
            lines.append((label, t, ("B", need), size))
        else:
            t, size, need = rng.choice(DATA)
            if "{k}" in t:
                size = rng.randint(0, 9)
                t = t.replace("{k}", str(size))
            if "{str}" in t:
                s = "".join(rng.choice("abcXYZ019 _") for _ in range(rng.randint(1, 7)))
                if rng.random() < 0.12:
                    # a character outside ASCII: the assembler may refuse it, but if it accepts the string it must reserve what it emits
                    pos = rng.randrange(len(s) + 1)
                    s = s[:pos] + rng.choice("\u00c9\u00b5\u20ac") + s[pos:]
                size = len(s.encode("utf-8"))
                t = t.replace("{str}", s)
            lines.append((label, t, ("B", need), size))
    for lb in unplaced:                      # remaining labels at the end
        lines.append((lb, None, ("-", None), 0))
    return lines, labels


def fill(rng, text, syms, here, near_ok=True):
    """substitute operand placeholders; returns text or None when a near target is on another page"""
    out = text
    while "{m8}" in out:                      # a direct internal-memory address below the named registers
        out = out.replace("{m8}", f"0x{rng.randrange(0xD0):02x}", 1)
    while "{n8}" in out:
        out = out.replace("{n8}", f"0x{rng.randrange(256):02x}", 1)
    while "{n16}" in out:
        out = out.replace("{n16}", f"0x{rng.randrange(65536):04x}", 1)
    while "{n20}" in out:
        out = out.replace("{n20}", f"0x{rng.randrange(1 << 20):05x}", 1)
    return out


def run(ctx):
    ctx.rule = ("programs generated from the assembler grammar: 3-14 statements over sections code/data/bss, literal .ORG directives, labels with forward and backward references, "
                "instructions with literal and symbolic operands (20-bit, 16-bit near, data words), defb/defw/defl/defs/defm; each program assembled by Assembler.assemble and laid out by the Coq model from the statement sizes: "
                "symbol table, placement address and size of every statement, bytes of every statement equal to assembling it alone at its address with symbols replaced by values, total image size, "
                "near JP/CALL to another page rejected; histories: the same program assembled twice on one object, after other programs, and on a fresh object; non-trivial = program with at least one label reference; distinct by text")
    ctx.trusted += ["correspondence harness: harness/py/asm_cmd.py (Assembler.assemble -> BinFile segments + symbols), extracted model_driver (asm_layout)",
                    "modelled not verified: _first_pass/_second_pass/_apply_location (Model/AsmLayout.v); the parser/transformer (asm.py, asm.lark) and instruction encoding are exercised through the implementation only; bincopy segment merging is outside"]
    ctx.assumptions += ["statement sizes are inputs of the model (they are checked against the bytes the implementation emits)", "generated programs keep sections and .ORG regions from overlapping"]
    ctx.prove(["C10_symbolic_org_refuted (Props/C10_refuted.v)"])
    okm, _ = corr.build_all(ctx, need_rust=False)
    if not okm:
        return
    rng = ctx.rng
    n = 4000 if ctx.tier == "thorough" else 500
    progs = []
    for i in range(n):
        adversarial = rng.random() < 0.15
        lines, labels = gen_program(rng, i, adversarial)
        progs.append((lines, labels, adversarial))
    # corpus: the symbolic .ORG witness of Props/C10_refuted.v
    progs.append(([(None, ".ORG LEND", ("Y", None), 0), ("LONE", "defw LONE", ("B", ""), 2), (None, ".ORG 0x200", ("O", 0x200), 0),
                   (None, "defb 1", ("B", ""), 1), ("LEND", None, ("-", None), 0)], ["LONE", "LEND"], True))
    # model layout from sizes
    mlines = []
    for lines, labels, _ in progs:
        lid = {lb: j + 1 for j, lb in enumerate(labels)}
        toks = []
        for (label, text, kind, size) in lines:
            lb = str(lid[label]) if label else "-"
            if kind[0] == "S":
                k = f"S{kind[1]}"
            elif kind[0] == "O":
                k = f"O{kind[1]}"
            elif kind[0] == "Y":
                k = f"Y{lid[text.split()[1]]}"
            elif kind[0] == "B":
                k = f"B{size}"
            else:
                k = "-"
            toks.append(f"{lb}:{k}")
        mlines.append(" ".join(toks))
    mo = corr.run_streams(ctx, mlines, {"model": ("model", "asm_layout")})["model"]
    # build sources with operands filled using the model's symbol values (near targets chosen on the same page when possible)
    sources, metas = [], []
    for (lines, labels, adversarial), m in zip(progs, mo):
        lid = {lb: j + 1 for j, lb in enumerate(labels)}
        if not m.startswith("OK"):
            sources.append(None)
            metas.append(None)
            continue
        parts = dict(p.split("=", 1) for p in m[3:].split(" "))
        syms = {int(a): int(b) for a, b in (t.split(":") for t in parts["syms"].split(",") if t)}
        a2 = [int(x) for x in parts["a2"].split(",") if x]
        val = {lb: syms[lid[lb]] for lb in labels}
        src, stm = [], []
        expect_reject = False
        for j, (label, text, kind, size) in enumerate(lines):
            here = a2[j]
            t = text
            if t is not None:
                t = fill(rng, t, val, here)
                if "{N}" in t:
                    same = [lb for lb in labels if (val[lb] & 0xFF0000) == (here & 0xFF0000)]
                    if same and rng.random() < 0.9:
                        t = t.replace("{N}", rng.choice(same))
                    else:
                        other = [lb for lb in labels if (val[lb] & 0xFF0000) != (here & 0xFF0000)]
                        if not other:
                            t = "NOP ; near target unavailable"
                            size_fix = 1
                            lines[j] = (label, t, kind, 1)
                        else:
                            t = t.replace("{N}", rng.choice(other))
                            expect_reject = True
                if "{L16}" in t:
                    t = t.replace("{L16}", rng.choice(labels))
                if "{L}" in t:
                    t = t.replace("{L}", rng.choice(labels))
            src.append(((label + ": ") if label else "    ") + (t or ""))
            stm.append((label, t, kind, lines[j][3], here))
        sources.append("\n".join(src) + "\n")
        metas.append((stm, val, expect_reject, adversarial))
    # NOP replacement may have changed a size: recompute the model for those programs is avoided by construction (size 3 -> 1 only when no label exists on the page);
    # such programs are dropped
    idx = [i for i, s in enumerate(sources) if s is not None and "near target unavailable" not in s]
    po = corr.run_streams(ctx, [sources[i].encode().hex() for i in idx], {"py": ("py", "asm")})["py"]
    alone_req = []
    for i, ans in zip(idx, po):
        ctx.evaluations += 1
        stm, val, expect_reject, adversarial = metas[i]
        m = mo[i]
        parts = dict(p.split("=", 1) for p in m[3:].split(" "))
        sig_adv = "symbolic_org" if adversarial and any(k[0] == "Y" for _, _, k, _, _ in stm) else None
        if expect_reject:
            ctx.count("expect_reject")
            if ans.startswith("OK"):
                ctx.report(["py", "near_jump_to_other_page_accepted"], "a JP/CALL mn whose target label is on another 64K page was assembled", {"source": sources[i], "answer": ans[:300]})
            continue
        if not ans.startswith("OK"):
            ctx.count("rejected:" + ans.split(":")[0][4:])
            if not sources[i].isascii():
                ctx.count("rejected:non_ascii_string")         # refusing a non-ASCII defm string is a clean answer
                continue
            if sig_adv is None:
                ctx.report(["py", "well_formed_program_rejected", ans.split(":")[1][:40] if ":" in ans else ans[:40]], f"assembler rejected a generated program: {ans[:160]}", {"source": sources[i], "model": m[:300]})
            continue
        ctx.traces += 1
        segs = {}
        body = ans[3:].split(" ")
        seg_s = body[0][5:]
        sym_s = body[1][5:]
        image = {}
        if seg_s != "-":
            for t in seg_s.split(","):
                a, hx = t.split(":")
                for k, b in enumerate(bytes.fromhex(hx)):
                    image[int(a) + k] = b
        psyms = {} if sym_s == "-" else {k: int(v) for k, v in (t.split(":") for t in sym_s.split(","))}
        bad = []
        if psyms != {k.upper(): v for k, v in val.items()}:
            bad.append(("symbol_table_differs_from_pass_layout", f"symbols {psyms} vs model {val}"))
        place = [tuple(int(x) for x in t.split(":")) for t in parts["place"].split(",") if t]
        total = sum(sz for _, sz, e in place if e)
        if len(image) != total:
            bad.append(("image_size_differs_from_sum_of_statement_sizes", f"{len(image)} bytes emitted, sizes sum to {total}"))
        pk = 0
        for (label, t, kind, size, here) in stm:
            if kind[0] != "B":
                continue
            a, sz, e = place[pk]
            pk += 1
            if e and t is not None:
                # the statement alone at its address, symbols replaced by their values
                alone = t
                for lb in sorted(val, key=len, reverse=True):
                    alone = alone.replace(lb, f"0x{val[lb]:05x}")
                alone_req.append((i, a, sz, alone, bytes(image.get(a + k, -1) & 0xFF if image.get(a + k) is not None else 0 for k in range(sz)), all((a + k) in image for k in range(sz))))
        # every label followed by an emitting statement must hold the address at which that statement's bytes are placed
        a1 = [int(x) for x in parts["a1"].split(",") if x]
        a2l = [int(x) for x in parts["a2"].split(",") if x]
        for j, (label, t, kind, size, here) in enumerate(stm):
            if label and kind[0] == "B" and size and psyms.get(label.upper()) != a2l[j] and all((a2l[j] + k) in image for k in range(size)):
                bad.append(("label_value_differs_from_placement_of_its_statement", f"{label} = {psyms.get(label.upper()):#x} but its statement's bytes are at {a2l[j]:#x}"))
                break
        if any(lb in (t or "") for _, t, _, _, _ in stm for lb in val):
            ctx.nontrivial.add(sources[i])
        for fam, what in bad:
            if sig_adv:
                ctx.report(["py", "symbolic_org_layout", fam], "program with a symbolic .ORG: " + what, {"source": sources[i], "answer": ans[:300], "model": m[:300]})
            else:
                ctx.report(["py", fam], what, {"source": sources[i], "answer": ans[:300], "model": m[:300]})
    # statements alone
    alone_src = [f".ORG {a:#x}\n    {t}\n".encode().hex() for (_, a, _, t, _, _) in alone_req]
    ao = corr.run_streams(ctx, alone_src, {"py": ("py", "asm")})["py"] if alone_src else []
    for (i, a, sz, t, got, present), ans in zip(alone_req, ao):
        ctx.evaluations += 1
        adversarial = metas[i][3]
        if not ans.startswith("OK"):
            ctx.count("alone_rejected")
            continue
        seg_s = ans[3:].split(" ")[0][5:]
        exp = b"" if seg_s == "-" else bytes.fromhex(seg_s.split(",")[0].split(":")[1])
        if not present or got != exp or len(exp) != sz:
            sig = ["py", "symbolic_org_layout", "statement_bytes"] if adversarial and ".ORG L" in sources[i] else ["py", "statement_bytes_differ_from_assembling_it_alone"]
            ctx.report(sig, f"`{t}` at {a:#x}: program image has {got.hex() if present else 'nothing'}, alone it assembles to {exp.hex()} (model size {sz})", {"source": sources[i], "statement": t})
    # histories: same program twice on one object, interleaved with others
    hist = []
    ok_idx = [i for i, ans in zip(idx, po) if ans.startswith("OK")]

    def ren(x):
        # the same label names in every program of a history (L12_3 -> LL_3): a value remembered under a name is then wrong for the next program
        return sources[x].replace(f"L{x}_", "LL_")
    for n in range(min(len(ok_idx) // 3, 600 if ctx.tier == "thorough" else 120)):
        a, b, c = (rng.choice(ok_idx) for _ in range(3))
        srcs = [ren(x) if n % 2 else sources[x] for x in (a, b, a, c, a)]
        hist.append((srcs, " ".join(t.encode().hex() for t in srcs)))
    ho = corr.run_streams(ctx, [h for _, h in hist], {"py": ("py", "asm_seq")})["py"] if hist else []
    uniq = sorted({t for srcs, _ in hist for t in srcs})
    fo = corr.run_streams(ctx, [t.encode().hex() for t in uniq], {"py": ("py", "asm")})["py"] if uniq else []
    fresh = dict(zip(uniq, fo))
    for (srcs, _), ans in zip(hist, ho):
        ctx.evaluations += 1
        parts = ans.split(" || ")
        exp = [fresh[t] for t in srcs]
        if parts != exp:
            k = next(j for j in range(len(exp)) if j >= len(parts) or parts[j] != exp[j])
            ctx.report(["py", "assembly_depends_on_earlier_calls"], f"call {k + 1} of a sequence on one Assembler differs from assembling the same source on a fresh one", {"sources": srcs, "got": parts[k][:300] if k < len(parts) else None, "fresh": exp[k][:300]})
        else:
            ctx.nontrivial.add("hist:" + srcs[0] + srcs[1])
    ctx.count("history_cases", len(hist))
    ctx.samples = [{"source": sources[idx[0]] if idx else "", "python": po[0][:300] if po else "", "model": mo[idx[0]][:300] if idx else ""}]
