"""C16 - saving and restoring a snapshot does not change the future."""
from __future__ import annotations

import os

import common
import corr
from checks import c12


def run(ctx):
    ctx.rule = ("machine scenarios of C12 (generated main programs with IMR/ISR writes, HALT/OFF/WAIT, handlers, both timers, ON-key presses); every step index k of the run (sampled in quick) as snapshot point: "
                "save_snapshot to a bundle, load it into a freshly constructed emulator/runtime, then continue original and restored for M further steps with the same inputs; compared step for step: PC, BA, I, S, C/Z, IMR, ISR, "
                "in-interrupt flag, delivery count, low-power flag, and at the end a digest of RAM, internal memory and (Python) the display buffer; both on PCE500Emulator and on CoreRuntime; "
                "a Rust bundle is also loaded by the Python loader (register blob and metadata compatibility); non-trivial = snapshot point inside a handler, halted, or with a pending request; distinct by scenario+k")
    ctx.trusted += ["correspondence harness: harness/py/irq_cmd.py snap (PCE500Emulator.save_snapshot/load_snapshot through a temporary bundle under .build), verif-harness irq_cmd.rs snap (CoreRuntime::save_snapshot/load_snapshot through the stored-only zip shim)",
                    "modelled: what the Python bundle keeps and what load restores (Model/Snap.v), the register blob (Model/Regs.v); NOT modelled: the Rust bundle, keyboard/LCD snapshot internals (kept abstract) - their round trips are decided by the continuation comparison on the implementation"]
    ctx.assumptions += ["the restored emulator is constructed like the original (same ROM image) before load_snapshot, as the application does",
                        "cross loading: the Python bundle's members are re-stored uncompressed (same names, same bytes) before the Rust harness reads it, because the offline zip shim reads stored members only"]
    ctx.prove(["C16_halted_refuted (Props/C16_refuted.v)", "C16_key_latch_refuted (Props/C16_refuted.v)"])
    _, okr = corr.build_all(ctx, need_model=False)
    tmp = common.BUILD / "tmp"
    tmp.mkdir(parents=True, exist_ok=True)
    os.environ["VERIF_TMP"] = str(tmp)
    rng = ctx.rng
    scen = c12.gen(ctx)
    thorough = ctx.tier == "thorough"
    scen = scen[: (1200 if thorough else 260)]
    # matrix keys: strobe all columns first (MV (F0),FF ; MV (F1),07), then press / release keys at random steps
    keyed = []
    for c in scen:
        imr0, ten, mti, sti, main, handler, nsteps, ev = c
        if rng.random() < 0.45:
            evs = [] if ev == "-" else ev.split(",")
            for _ in range(rng.randint(1, 3)):
                key = rng.choice(["KEY_W", "KEY_R", "KEY_Y", "KEY_I", "KEY_P", "KEY_A", "KEY_Q"])
                k1 = rng.randrange(nsteps)
                evs.append(f"{k1}:key{key}")
                if rng.random() < 0.6:
                    evs.append(f"{rng.randrange(k1, nsteps)}:rel{key}")
            c = (imr0, ten, mti, sti, ("ccf0ffccf107" + main) if rng.random() < 0.8 else main, handler, nsteps, ",".join(evs))
        keyed.append(c)
    scen = keyed
    lines, meta = [], []
    for c in scen:
        imr0, ten, mti, sti, main, handler, nsteps, ev = c
        ks = range(1, nsteps - 2) if thorough and rng.random() < 0.15 else sorted(rng.sample(range(1, nsteps - 2), min(3, nsteps - 3)))
        for k in ks:
            m = min(10, nsteps - k)
            lines.append(f"{imr0} {ten} {mti} {sti} {main} {handler} {k} {m} {ev}")
            meta.append((c, k))
    streams = {"py": ("py", "snap")}
    if okr:
        streams["rs"] = ("rs", "snap")
    outs = corr.run_streams(ctx, lines, streams)
    for core in streams:
        for l, (c, k), a in zip(lines, meta, outs[core]):
            ctx.evaluations += 1
            if a.startswith("SNAPERR") or "|" not in a:
                ctx.report([core, "snapshot_error"], a[:120], {"case": "snap " + l})
                continue
            ctx.traces += 1
            parts = dict((p.strip().split(" ", 1) + [""])[:2] for p in a.split("|"))
            at, re_, ta, tb = parts["AT"], parts["RESTORED"], parts["A"], parts["B"]
            atf = at.split(",")
            halted, inirq = atf[9] == "1", atf[7] == "1"
            if halted or inirq:
                ctx.nontrivial.add(core + l)
            cx = {"case": "snap " + l, "core": core, "at": at, "restored": re_}
            if at != re_:
                fields = ["pc", "ba", "i", "s", "f", "imr", "isr", "in_interrupt", "irq_total", "low_power", "kil", "key_fifo"]
                diff = [n for n, x, y in zip(fields, at.split(","), re_.split(",")) if x != y]
                ctx.report([core, "restored_state_differs", "+".join(diff)], f"snapshot at step {k}: restored state differs in {diff}", cx)
            elif ta != tb:
                sa, sb = ta.split(";"), tb.split(";")
                j = next((i for i in range(min(len(sa), len(sb))) if sa[i] != sb[i]), min(len(sa), len(sb)))
                fl = ["pc", "ba", "i", "s", "f", "imr", "isr", "in_interrupt", "irq_total", "low_power", "kil", "key_fifo"]
                first = [n for n, x, y in zip(fl, sa[j].split(","), sb[j].split(",")) if x != y] if j < len(sa) and j < len(sb) else ["length"]
                keys = any(t.split(":")[1].startswith(("key", "rel")) for t in l.split(" ")[8].split(",") if ":" in t)
                # recorded Rust finding (the key-interrupt latch is not restored): the first visible difference is the KEYI status bit,
                # alone or together with the interrupt it causes in the same step
                fsig = "isr" if (core == "rs" and keys and "isr" in first) else "+".join(first)
                ctx.report([core, "future_differs_after_identical_visible_state", fsig, "matrix_keys" if keys else "no_matrix_keys"],
                           f"snapshot at step {k}: continuation differs from step +{j + 1} in {first}: original {sa[j] if j < len(sa) else None} restored {sb[j] if j < len(sb) else None}", cx)
            elif parts["DA"] != parts["DB"]:
                cells = sorted({t.split(":")[0] for t in parts.get("DIFF", "-").split(",") if ":" in t}) or ["unknown"]
                where = cells[0] if all(c.startswith("imem") for c in cells) and len(cells) == 1 else ("ram" if not any(c.startswith("imem") for c in cells) else "several")
                ctx.report([core, "memory_or_display_differs_after_restore", where], f"snapshot at step {k}: final state differs at {parts.get('DIFF', '?')} (digests {parts['DA']} vs {parts['DB']})", cx)
    # cross loading: a bundle written by one implementation is loaded by the other, which must then show the saver's state
    if okr:
        sub = list(zip(lines, meta))[:: (3 if thorough else 6)]
        fields = ["pc", "ba", "i", "s", "f", "imr", "isr", "in_interrupt", "irq_total", "low_power", "kil", "key_fifo"]
        for saver, loader in (("rs", "py"), ("py", "rs")):
            sl, ll = [], []
            for n, (l, (c, k)) in enumerate(sub):
                w = l.split(" ")
                path = tmp / f"x-{saver}-{os.getpid()}-{n}.pcsnap"
                sl.append(" ".join(w[:7] + [str(path), w[8]]))
                ll.append(f"{path} {w[4]} {w[5]}")
            so = corr.run_streams(ctx, sl, {"s": (saver, "snapsave")})["s"]
            lo = corr.run_streams(ctx, ll, {"l": (loader, "snapload")})["l"]
            for l, a, b in zip(sl, so, lo):
                ctx.evaluations += 1
                cx = {"case": f"{saver}:snapsave {l} ; {loader}:snapload", "saved": a[:200], "loaded": b[:200]}
                if not a.startswith("SAVED "):
                    ctx.report([saver, "snapshot_error"], a[:120], cx)
                    continue
                if not b.startswith("LOADED "):
                    ctx.report([f"{saver}_to_{loader}", "bundle_rejected_by_other_implementation"], b[:160], cx)
                    continue
                ctx.traces += 1
                ctx.count(f"cross:{saver}_to_{loader}")
                diff = [n for n, x, y in zip(fields, a[6:].split(","), b[7:].split(",")) if x != y]
                fams = set()
                for n in diff:
                    fams.add("low_power" if n == "low_power" else ("keyboard_state" if n in ("kil", "key_fifo") else n))
                for fam in sorted(fams):
                    ctx.report([f"{saver}_to_{loader}", "state_differs_after_cross_load", fam], f"{loader} shows a different state after loading the {saver} bundle: {diff}", cx)
        for f in tmp.glob("x-*.pcsnap"):
            f.unlink()
    ctx.samples = [{"case": lines[0], "python": outs["py"][0][:300]}]
