"""C07 - an instruction's effect depends only on architectural state."""
from __future__ import annotations

import re

import corr
from checks import cpu, execgen, c06


def run(ctx):
    ctx.rule = ("(1) scratch registers: every prefix x opcode x mode-byte structure executed twice from the same architectural state, once with TEMP0-13 random and once with TEMP0-13 = 0, on the Python emulator and on the Rust core: "
                "architectural results (PC, BA, I, X, Y, U, S, F, low-power flag, written memory) must be identical; (2) histories: generated programs run N+M steps in one emulator vs N steps, architectural registers + memory carried into a fresh "
                "emulator/LlamaState (call bookkeeping, scratch registers, decoder caches dropped), then M steps, on both cores - including self-modifying programs whose store rewrites an operand byte a few bytes ahead; (3) repeatability: the same cases re-run later in the same harness process (after thousands of other emulator instances) give identical answers, and a case run right after a one-byte sibling at the same address answers what it answers alone; "
                "(4) every lifted IL of the sweep passes the in-model definite-assignment check of the scratch registers (Model/TempSafe.v, proved sound in Coq); non-trivial = executable valid encoding; distinct by bytes+state")
    ctx.trusted += ["correspondence harness: exec_cmd.py / exec_cmd.rs (exec1 with TEMP registers set through Registers.set / LlamaState::set_reg; exec_split), extracted model_driver (exec_py, tsafe)",
                    "modelled not verified: the Python core as for C04; Rust call bookkeeping (call_page_stack, call_depth), PERF_* statics, cached decoder: not modelled, covered by the split-run and repeat comparisons on the implementation"]
    ctx.assumptions += ["architectural state = PC, BA, I, X, Y, U, S, F, low-power flag and memory (IMR and the other internal registers are memory)"]
    ctx.prove()
    okm, okr = corr.build_all(ctx)
    if not (okm and okr):
        return
    rng = ctx.rng
    cases = execgen.exec_cases(rng, ctx.tier, temps=True)
    zero = []
    for c in cases:
        regs = {k: (0 if k.startswith("TEMP") else v) for k, v in c[2].items()}
        zero.append((c[0], c[1], regs, c[3], c[4]))
    la, lb = cpu.wire(cases), cpu.wire(zero)
    oa = corr.run_streams(ctx, la, {"py": ("py", "exec1"), "rs": ("rs", "exec1"), "model": ("model", "exec_py")})
    ob = corr.run_streams(ctx, lb, {"py": ("py", "exec1"), "rs": ("rs", "exec1")})
    # in-model definite assignment of scratch registers
    ts = corr.run_streams(ctx, [f"{c[0]} {c[1]}" for c in cases], {"model": ("model", "tsafe")})["model"]
    dis = 0
    for case, l, pa, pb, ra, rb, m, t in zip(cases, la, oa["py"], ob["py"], oa["rs"], ob["rs"], oa["model"], ts):
        ctx.evaluations += 1
        pm = cpu.parse(m)
        ppa = cpu.parse(pa)
        if pm is not None and ppa is not None and cpu.diff_fields(pm, ppa):
            dis += 1
            if dis <= 5:
                ctx.broke("correspondence:exec", f"`exec1 {l[:200]}` python={pa[:160]} model={m[:160]}")
        if pm is None or not pm.get("k", "").startswith("F:"):
            ctx.count("skipped:not-a-valid-encoding")
            continue
        mn = cpu.mnemonic(pm)
        ctx.traces += 1
        ctx.nontrivial.add(l)
        if t.startswith("UNSAFE"):
            ctx.report(["py", "lifted_il_reads_scratch_register_before_writing_it", mn], f"{mn} ({case[0]}): definite-assignment check of the lifted IL fails: {t}", {"case": "tsafe " + f"{case[0]} {case[1]}", "answer": t})
        if cpu.canon_err(pa) != cpu.canon_err(pb):
            ctx.report(["py", "result_depends_on_scratch_registers", mn], f"{mn} ({case[0]}): Python result changes with the initial TEMP contents", {"case": "exec1 " + l, "temps_random": pa[:300], "temps_zero": pb[:300]})
        ca, cb = ra.split(" | len:")[0], rb.split(" | len:")[0]
        if cpu.canon_err(ca) != cpu.canon_err(cb):
            ctx.report(["rs", "result_depends_on_scratch_registers", mn], f"{mn} ({case[0]}): Rust result changes with the initial Temp register contents", {"case": "exec1 " + l, "temps_random": ra[:300], "temps_zero": rb[:300]})
    ctx.extra.setdefault("disagreements", {})["model_vs_python"] = dis
    # repeatability: a sample re-run at the end of a long stream, in reverse order
    sample = list(range(0, len(la), max(1, len(la) // (4000 if ctx.tier == "thorough" else 800))))
    again = [la[i] for i in reversed(sample)]
    oc = corr.run_streams(ctx, la[: len(la) // 8] + again, {"py": ("py", "exec1"), "rs": ("rs", "exec1")}, sharded=False)
    off = len(la) // 8
    for j, i in enumerate(reversed(sample)):
        for core in ("py", "rs"):
            ctx.evaluations += 1
            if oc[core][off + j] != oa[core][i]:
                ctx.report([core, "same_case_different_answer_later_in_process"], f"case {i} answered differently when re-run after {off + j} other cases in one process", {"case": "exec1 " + la[i], "first": oa[core][i][:300], "later": oc[core][off + j][:300]})
    ctx.count("repeat_cases", len(sample))
    # byte siblings at the same address: a case, then the same state with ONE later instruction byte changed (the last byte of
    # the encoding half of the time), run back to back in one process - what self-modifying code or a host patching an operand
    # does.  The sibling must answer what it answers in a process that never saw the original (anything remembered per
    # address / per leading bytes between decodes shows as a difference)
    sib_src = []
    for i, (c, m) in enumerate(zip(cases, oa["model"])):
        pm = cpu.parse(m)
        if pm is None or not pm.get("k", "").startswith("F:"):
            continue
        try:
            n = int(pm["k"].split(":")[1])
        except (ValueError, IndexError):
            continue
        if n >= 2:
            sib_src.append((i, n))
    # long encodings first (they are the rare ones), then a random sample
    sib_src.sort(key=lambda t: -t[1])
    nlong = 400 if ctx.tier == "thorough" else 120
    chosen = sib_src[:nlong] + rng.sample(sib_src[nlong:], min(len(sib_src) - nlong, 2000 if ctx.tier == "thorough" else 300)) if len(sib_src) > nlong else sib_src
    sibs = []
    for i, n in chosen:
        c = cases[i]
        bs = bytearray(bytes.fromhex(c[0]))
        k = n - 1 if rng.random() < 0.5 else rng.randrange(1, n)
        if k >= len(bs):
            continue
        bs[k] ^= rng.choice([1, 2, 0x10, 0x80, rng.randrange(1, 256)])
        sibs.append((i, (bs.hex(), c[1], c[2], c[3], c[4])))
    ls = cpu.wire([sc for _, sc in sibs])
    alone = corr.run_streams(ctx, ls, {"py": ("py", "exec1"), "rs": ("rs", "exec1")})
    inter = []
    for (i, _), l in zip(sibs, ls):
        inter += [la[i], l]
    after = corr.run_streams(ctx, inter, {"py": ("py", "exec1"), "rs": ("rs", "exec1")}, sharded=False)
    for j, ((i, sc), l) in enumerate(zip(sibs, ls)):
        for core in ("py", "rs"):
            ctx.evaluations += 1
            if after[core][2 * j + 1] != alone[core][j]:
                ctx.report([core, "result_depends_on_the_instruction_executed_before_at_the_same_address"],
                           f"{sc[0]} at {sc[1]:#x} answers differently right after {cases[i][0]} was executed at that address in the same process",
                           {"case": "exec1 " + l, "history": ["exec1 " + la[i], "exec1 " + l], "alone": alone[core][j][:300], "after_sibling": after[core][2 * j + 1][:300]})
    ctx.count("byte_sibling_pairs", len(sibs))
    # another emulator instance constructed after the one under test (and never used) must not matter: the same sample, plus
    # every case whose first byte is an intrinsic (RESET, HALT, OFF, TCL, WAIT), run with such a bystander
    by_idx = sorted(set(sample) | {i for i, c in enumerate(cases) if c[0][:2] in ("ff", "de", "df", "ce", "ef") or c[0][2:4] in ("ff", "de", "df")})
    ob_by = corr.run_streams(ctx, [la[i] for i in by_idx], {"py": ("py", "exec1_by")})["py"]
    for i, b in zip(by_idx, ob_by):
        ctx.evaluations += 1
        if b != oa["py"][i]:
            ctx.report(["py", "result_depends_on_other_emulator_instances"], f"case {i}: with an unrelated emulator constructed in the same process the answer changes" + (" and the bystander's state was modified" if "BYSTANDER" in b else ""),
                       {"case": "exec1 " + la[i], "alone": oa["py"][i][:300], "with_bystander": b[:300]})
    ctx.count("bystander_cases", len(by_idx))
    # histories: split runs
    progs = c06.program_cases(ctx)
    # plus call/return and interrupt histories, which exercise the call bookkeeping
    extra = []
    RET = {"call": "06", "callf": "07", "ir": "01"}
    for _ in range(900 if ctx.tier == "thorough" else 200):
        regs = execgen.rand_regs(rng)
        regs["S"] = rng.randrange(0x8000, 0xB0000)
        regs["U"] = rng.randrange(0x8000, 0xB0000)
        regs["F"] = rng.randrange(4)
        mem = execgen.rand_mem(rng)
        depth = rng.randint(1, 3)
        tgts = rng.sample(range(0x2000, 0xF000, 0x40), depth)
        kinds = [rng.choice(["call", "callf", "ir"]) if d == 0 else rng.choice(["call", "callf"]) for d in range(depth)]

        def call_bytes(kind, tgt):
            if kind == "call":
                return bytes([0x04, tgt & 0xFF, tgt >> 8])
            if kind == "callf":
                return bytes([0x05, tgt & 0xFF, tgt >> 8, 0])
            for i in range(3):
                mem[0xFFFFA + i] = (tgt >> (8 * i)) & 0xFF
            return bytes([0xFE])
        code = call_bytes(kinds[0], tgts[0]).hex() + "0805" + "00" * 6
        nsteps = 2
        for d in range(depth):
            body = bytes.fromhex("".join(rng.choice(["00", "0805", "6c00", "28", "38", "4003"]) for _ in range(rng.randint(0, 2))))
            inner = call_bytes(kinds[d + 1], tgts[d + 1]) + bytes.fromhex("00") if d + 1 < depth else b""
            # the callee returns with the matching return most of the time, with another kind otherwise (the architecture allows it)
            ret = RET[kinds[d]] if rng.random() < 0.7 else rng.choice(["06", "07", "01"])
            prog = body + inner + bytes.fromhex(ret)
            for i, bb in enumerate(prog):
                mem[tgts[d] + i] = bb
            nsteps += len(prog)
        extra.append(((code, 0x100, regs, mem, 0), min(nsteps, 14)))
    # self-modifying code: a store rewrites the operand byte of an instruction a few bytes ahead, which then executes.  What
    # that instruction does is a function of the memory contents at the time it runs, not of what was fetched earlier.
    selfmod = []
    for _ in range(600 if ctx.tier == "thorough" else 120):
        regs = execgen.rand_regs(rng)
        mem = execgen.rand_mem(rng)
        v = rng.randrange(256)
        g0, g1 = rng.randint(0, 2), rng.randint(0, 3)
        tgt = rng.choice(["0911", "0822", "4005", "6405", "0a2211"])      # MV IL,n / MV A,n / ADD A,n / CMP A,n / MV BA,mn
        store_at = 2 + g0
        tgt_at = store_at + 4 + g1
        cell = 0x100 + tgt_at + rng.randint(1, len(tgt) // 2 - 1)
        code = "08%02x" % v + "00" * g0 + "a8" + cell.to_bytes(3, "little").hex() + "00" * g1 + tgt + "0000"
        n = 1 + g0 + 1 + g1 + 1 + 1
        # split either right after the store (the continuation starts in a core that never saw the old bytes) or anywhere
        k = (1 + g0 + 1) if rng.random() < 0.6 else rng.randint(1, n - 1)
        selfmod.append(((code, 0x100, regs, mem, 0), n, k))
    # low-power instructions executed twice in one core: HALT/OFF, the status registers rewritten by the program, HALT/OFF
    # again - the second one must do what a core that never saw the first one does
    lowpower = []
    for _ in range(200 if ctx.tier == "thorough" else 40):
        regs = execgen.rand_regs(rng)
        mem = execgen.rand_mem(rng)
        a, b = rng.choice(["de", "df"]), rng.choice(["de", "df"])
        code = a + "30ccf8%02x" % rng.randrange(256) + "30ccff%02x" % rng.choice([0, 0xFB, rng.randrange(256)]) + b + "0000"
        lowpower.append(((code, 0x100, regs, mem, 0), 5, rng.choice([3, 3, 1, 2])))
    allp = progs + extra
    plines = []
    for case, n in allp:
        k = rng.randint(1, max(1, n - 1))
        plines.append(execgen.fmt(case) + f" {k} {n - k}")
    for case, n, k in selfmod:
        plines.append(execgen.fmt(case) + f" {k} {n - k}")
    ctx.count("self_modifying_cases", len(selfmod))
    nh_from = len(plines)
    for case, n, k in lowpower:
        plines.append(execgen.fmt(case) + f" {k} {n - k} nh")
    ctx.count("repeated_low_power_cases", len(lowpower))
    so = corr.run_streams(ctx, plines, {"py": ("py", "exec_split"), "rs": ("rs", "exec_split")})
    for l, p, r in zip(plines, so["py"], so["rs"]):
        for core, ans in (("py", p), ("rs", r)):
            ctx.evaluations += 1
            ctx.traces += 1
            if " || " not in ans:
                ctx.report([core, "split_run_error"], f"exec_split answered {ans[:80]}", {"case": "exec_split " + l})
                continue
            a, b = ans.split(" || ")
            a, b = a.split(" | len:")[0], b.split(" | len:")[0]
            if l.endswith(" nh"):
                # the continuation started without the low-power flag: registers, flags and memory are compared
                a, b = re.sub(r" halted=\d", "", a), re.sub(r" halted=\d", "", b)
            if cpu.canon_err(a) != cpu.canon_err(b):
                ctx.report([core, "run_N_plus_M_differs_from_N_then_M"], "one run of N+M steps and a run of N steps continued in a fresh core for M steps end in different architectural states",
                           {"case": "exec_split " + l, "whole": a[:300], "split": b[:300]})
            else:
                ctx.nontrivial.add("split:" + l)
    ctx.count("split_cases", len(plines))
    ctx.samples = [{"case": la[0][:200], "temps_random": oa["py"][0][:200], "temps_zero": ob["py"][0][:200]}, {"split": plines[0][:160], "python": so["py"][0][:200]}]
