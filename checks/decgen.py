"""Shared generator / oracle for the decoder properties (C01, C02)."""
from __future__ import annotations

PRE = [0x21, 0x22, 0x23, 0x24, 0x25, 0x26, 0x27, 0x30, 0x31, 0x32, 0x33, 0x34, 0x35, 0x36, 0x37]
# second bytes that select addressing modes / registers in the mode-carrying operand classes
MODE_BYTES = [0x00, 0x04, 0x07, 0x14, 0x24, 0x27, 0x34, 0x37, 0x44, 0x80, 0x84, 0x87, 0x8C, 0xC0, 0xC4, 0xC7, 0xCC, 0x0C, 0x3F, 0x88, 0x08, 0x77, 0xFF]
ADVERSARIAL_TAILS = ["560400", "5e0400", "e30400", "e38400", "00", "ff", "32", "3232", "ed88", "9805", "d6"]


def structural_cases(rng, tier):
    """(hex, filler, addr) triples covering prefix x opcode x second byte, truncations, tails."""
    thorough = tier == "thorough"
    cases = []
    prefixes = [[]] + [[p] for p in PRE] + [[0x32, 0x25], [0x20]]
    for pre in prefixes:
        for opc in range(256):
            seconds = list(range(256)) if thorough else (MODE_BYTES[:12] + rng.sample(range(256), 4))
            for b2 in seconds:
                rest = [rng.randrange(256) for _ in range(5)]
                bs = pre + [opc, b2] + rest
                addr = rng.choice([0, 0x1000, 0xFFFFF, 0xFFFF0, 0x2FFFE, rng.randrange(1 << 20)])
                cases.append((bytes(bs).hex(), "-", addr))
    # every truncation length of a sample
    sample = rng.sample(cases, min(len(cases), 60000 if thorough else 6000))
    for hx, _, addr in sample:
        bs = bytes.fromhex(hx)
        for cut in range(0, len(bs)):
            cases.append((bs[:cut].hex() or "-", rng.choice(["-"] + ADVERSARIAL_TAILS), addr))
    # PRE at the very end of the buffer, PRE PRE, PRE before invalid
    for p in PRE:
        cases.append((bytes([p]).hex(), "-", 0x100))
        cases.append((bytes([p]).hex(), "56040000", 0x100))
        cases.append((bytes([p, p ^ 0x11 if (p ^ 0x11) in PRE else p]).hex(), "-", 0x100))
        cases.append((bytes([p, 0x44, 0x88]).hex(), "-", 0x100))
    return cases


def parse(line):
    """-> dict(D=..., info=..., text=..., llil=..., emu=...)"""
    out = {}
    toks = line.split()
    i = 0
    cur = None
    for t in toks:
        for k in ("D=", "info=", "text=", "llil=", "emu=", "emuh="):
            if t.startswith(k):
                cur = k[:-1]
                out[cur] = [t[len(k):]]
                break
        else:
            if cur:
                out[cur].append(t)
    return out


def fmt(c):
    return f"{c[0]} {c[1]} {c[2]}"


def strip_history(line):
    """drop the harness's emuh= field (same fetch on a long-lived Emulator)"""
    i = line.find(" emuh=")
    return line if i < 0 else line[:i]
