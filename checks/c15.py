"""C15 - LCD controllers follow the HD61202 protocol and map VRAM to pixels one-to-one."""
from __future__ import annotations

import common
import corr


def gen(ctx):
    rng = ctx.rng
    n = 40000 if ctx.tier == "thorough" else 1500
    lines = []
    bases = [0x2000, 0xA000, 0x2000, 0xA000, 0x2FF0, 0xA120, 0x2550]
    for k in range(n):
        ops = []
        for _ in range(rng.randint(4, 60)):
            r = rng.random()
            base = rng.choice(bases)
            if r < 0.08:
                base = rng.choice([0x1FF0, 0x3000, 0x9FF0, 0xB000, 0x12000, 0x0, 0xFFFF0])  # outside / aliasing
            lo = rng.randrange(16)
            if r < 0.55:
                # writes: mostly to write addresses; a separate stream of writes to read addresses
                if rng.random() < 0.93:
                    lo &= 0xE
                kind = rng.random()
                if kind < 0.35:
                    v = rng.randrange(256)
                elif kind < 0.5:
                    v = rng.choice([0x3F, 0x3E, 0x00, 0x01])              # on/off
                elif kind < 0.65:
                    v = 0xB8 | rng.randrange(8)                           # set page
                elif kind < 0.8:
                    v = 0x40 | rng.choice([0, 1, 55, 56, 62, 63, rng.randrange(64)])   # set y
                else:
                    v = 0xC0 | rng.choice([0, 8, 32, rng.randrange(64)])  # start line
                ops.append(f"w:{base + lo}:{v}")
            elif r < 0.85:
                ops.append(f"r:{base + (lo | 1 if rng.random() < 0.9 else lo)}")
            elif r < 0.95:
                ops.append("st")
            else:
                ops.append("px")
        ops.append("st")
        lines.append(" ".join(ops))
    return lines


class Spec:
    """HD61202 command protocol written from the datasheet summary in the property (witness oracle only)."""

    def __init__(self):
        self.c = [dict(on=0, busy=0, start=0, page=0, y=0, vram=[0] * 512) for _ in range(2)]  # 0 left, 1 right

    @staticmethod
    def access(a):
        if (a & 0xF000) not in (0x2000, 0xA000):
            return None
        lo = a & 0xF
        cs = (lo >> 2) & 3
        if cs == 3:
            return None
        return ([0, 1], [1], [0])[cs], (lo >> 1) & 1, lo & 1

    def write(self, a, v):
        acc = self.access(a)
        if acc is None or acc[2]:
            return
        chips, di, _ = acc
        for i in chips:
            c = self.c[i]
            c["busy"] = 1
            if di:
                c["vram"][c["page"] * 64 + c["y"]] = v
                c["y"] = (c["y"] + 1) % 64
            else:
                k, d = v >> 6, v & 0x3F
                if k == 0:
                    c["on"] = d & 1
                elif k == 1:
                    c["y"] = d
                elif k == 2:
                    c["page"] = d & 7
                else:
                    c["start"] = d

    def read(self, a):
        acc = self.access(a)
        if acc is None or not acc[2] or len(acc[0]) != 1:
            return 256
        c = self.c[acc[0][0]]
        if acc[1]:
            v = c["vram"][c["page"] * 64 + (c["y"] - 1) % 64]
            c["y"] = (c["y"] + 1) % 64
            return v
        v = (0x80 if c["busy"] else 0) | (0 if c["on"] else 0x20)
        c["busy"] = 0
        return v

    def state(self):
        out = []
        for c in self.c:
            acc = 0
            for b in c["vram"]:
                acc = (acc * 31 + b + 7) % 4294967291
            out += [c["on"], c["start"], c["page"], c["y"], acc]
        return ",".join(str(x) for x in out)


def oracle(ctx, name, line, obs):
    sp = Spec()
    ops = line.split()
    res = obs.split(";")
    if len(res) != len(ops):
        ctx.report([name, "answer-shape"], f"{name}: {len(res)} answers for {len(ops)} ops", {"case": line})
        return
    for k, (op, ob) in enumerate(zip(ops, res)):
        p = op.split(":")
        if p[0] == "w":
            a, v = int(p[1]), int(p[2])
            acc = Spec.access(a)
            if acc is not None and acc[2]:
                # write to a READ address: protocol says nothing is written; compare after the fact via `st`
                sp_before = sp.state()
            sp.write(a, v)
            continue
        if p[0] == "r":
            exp = str(sp.read(int(p[1])))
            kind = "read_value"
        elif p[0] == "st":
            exp = sp.state()
            kind = "chip_state"
        else:
            continue
        if ob != exp:
            prev_writes = [o for o in ops[:k] if o.startswith("w:")]
            odd = [o for o in prev_writes if (int(o.split(":")[1]) & 1) and Spec.access(int(o.split(":")[1])) is not None]
            sig = [name, kind, "after_write_to_read_address"] if odd else [name, kind]
            ctx.report(sig, f"{name}: {op} gives {ob[:70]}, HD61202 protocol gives {exp[:70]} after `{' '.join(ops[max(0, k - 6):k])}`", {"case": " ".join(ops[:k + 1]), "got": ob, "expected": exp})
            return


def run(ctx):
    ctx.rule = ("random access sequences (4..60 ops) over both LCD windows incl. mirrors (all 16 low-nibble decodings, all value classes: on/off, page, column incl. 55/56/63 wrap, start line, data), "
                "status/data reads, state dumps and display-buffer digests, plus a minority of out-of-window addresses and writes to READ addresses; non-trivial = contains a data write and a data read; distinct by text")
    ctx.trusted += ["correspondence harness: harness/py/lcd_cmd.py (HD61202Controller.write/read/chips/get_display_buffer), verif-harness lcd_cmd.rs (LcdController::write/read/export_snapshot/display_buffer), extracted model_driver",
                    "modelled not verified: hd61202.py, pipeline.py _apply_command, controller_wrapper.py write/read/get_display_buffer, lcd.rs chip + controller + copy_region; tracing, statistics counters, char matcher, IQ-7000 variant not modelled"]
    ctx.prove()
    okr_ref, outr = common.coq_make(["Props/C15_refuted.vo"])
    ctx.extra["refuted_witnesses_still_reproduce"] = bool(okr_ref)
    okm, okr = corr.build_all(ctx)
    lines = gen(ctx)
    streams = {"py": ("py", "lcd_py")}
    if okr:
        streams["rs"] = ("rs", "lcd_rs")
    if okm:
        streams["mpy"] = ("model", "lcd_py")
        streams["mrs"] = ("model", "lcd_rs")
    outs = corr.run_streams(ctx, lines, streams)
    corr.compare(ctx, "lcd", lines, outs, [("py", "mpy"), ("rs", "mrs")])
    # the public snapshot API must show the live controller state at every point (after reads too)
    sn_lines = [" ".join(("st sn" if o == "st" else o) for o in (l.split() + ["st"])) for l in lines[: (4000 if ctx.tier == "thorough" else 400)]]
    sn_out = corr.run_streams(ctx, sn_lines, {"py": ("py", "lcd_py")})["py"]
    for l, o in zip(sn_lines, sn_out):
        ctx.evaluations += 1
        ops, res = l.split(), o.split(";")
        if len(ops) != len(res):
            ctx.report(["py", "error", "snapshot_stream"], f"py answered {len(res)} fields for {len(ops)} ops: {o[:80]}", {"case": l})
            continue
        for k in range(1, len(ops)):
            if ops[k] == "sn" and res[k] != res[k - 1]:
                ctx.report(["py", "snapshot_api_differs_from_live_state"], f"get_snapshot() shows (on,start,page,y,vram)x2 = {res[k]} while the chips hold {res[k - 1]}", {"case": " ".join(ops[:k + 1])})
                break
    ctx.count("snapshot_api_cases", len(sn_lines))
    for i, l in enumerate(lines):
        ctx.evaluations += 1
        ctx.traces += 1
        ops = l.split()
        has_dw = any(o.startswith("w:") and (int(o.split(":")[1]) & 2) for o in ops)
        has_dr = any(o.startswith("r:") and (int(o.split(":")[1]) & 2) for o in ops)
        if has_dw and has_dr:
            ctx.nontrivial.add(l)
        for o in ops:
            ctx.count(o.split(":")[0])
        for nm in ("py", "rs"):
            if nm in outs:
                if outs[nm][i].startswith("ERR") or outs[nm][i] == "MISSING":
                    ctx.report([nm, "error", outs[nm][i][:30]], f"{nm} failed: {outs[nm][i]}", {"case": l})
                else:
                    oracle(ctx, nm, l, outs[nm][i])
        if "rs" in outs:
            # display buffers: Python vs Rust
            po, ro = outs["py"][i].split(";"), outs["rs"][i].split(";")
            for k, op in enumerate(ops):
                if op == "px" and k < len(po) and k < len(ro) and po[k] != ro[k]:
                    # classify: which chip state makes them differ
                    ctx.report(["display_py_rs_differ"], "Python and Rust display buffers differ for the same VRAM (Rust ignores display-off and applies the start line, Python blanks a chip that is off and ignores the start line)", {"case": " ".join(ops[:k + 1]), "py_digest": po[k], "rs_digest": ro[k]})
                    break
    # pixel map of the implementation, complete: every VRAM bit set alone on a blank display (Python display stitching)
    pm, err = corr.run_exec("py", "pxmap", ["go"])
    ctx.evaluations += 1
    if len(pm) != 1 or " " not in pm[0]:
        ctx.report(["py", "pixel_map", "probe_failed"], f"pxmap answered {str(pm)[:80]} {err[:80]}", {"case": "pxmap"})
    else:
        dims, body = pm[0].split(" ", 1)
        ent = body.split(",")
        ctx.traces += 1
        ctx.count("pixel_map_bits", len(ent))
        cover = {}
        bad = None
        for k, e in enumerate(ent):
            chip, page, col, bit = k // 4096, (k // 512) % 8, (k // 8) % 64, k % 8
            if e.startswith("?"):
                bad = bad or ("one_vram_bit_changes_several_pixels", f"chip {chip} page {page} column {col} bit {bit} changes {e[1:]} pixels")
            elif e != "-":
                cover.setdefault(e, []).append((chip, page, col, bit))
        for page_cells in range(0, len(ent), 8):
            xs = {e.split(".")[0] for e in ent[page_cells:page_cells + 8] if e not in ("-",) and not e.startswith("?")}
            if len(xs) > 1:
                k = page_cells
                bad = bad or ("data_write_touches_several_display_columns", f"chip {k // 4096} page {(k // 512) % 8} column {(k // 8) % 64}: its bits land in display columns {sorted(xs)}")
        dup = [(px, bits) for px, bits in cover.items() if len(bits) > 1]
        if dup:
            bad = bad or ("pixel_driven_by_several_vram_bits", f"pixel {dup[0][0]} is driven by {dup[0][1][:3]}")
        missing = [f"{x}.{y}" for y in range(32) for x in range(240) if f"{x}.{y}" not in cover]
        if dims != "240x32" or missing:
            bad = bad or ("visible_pixel_driven_by_no_vram_bit", f"display {dims}; {len(missing)} of 7680 pixels are driven by no VRAM bit, e.g. {missing[:4]}")
        if bad:
            ctx.report(["py", "pixel_map", bad[0]], "Python display stitching: " + bad[1], {"case": "pxmap", "detail": bad[1]})
        else:
            ctx.nontrivial.add("pxmap")
    ctx.samples = [{"case": lines[0][:400], "python": outs["py"][0][:300]}]
