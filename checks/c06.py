"""C06 - the Rust LLAMA core and the Python core agree on every instruction."""
from __future__ import annotations

import corr
from checks import cpu, execgen

F_INSTR = {"PUSHU", "PUSHS", "POPU", "POPS", "RETI", "IR"}


def abs_high_nibble(case, rendered):
    """does the encoding carry an absolute [lmn] operand whose third byte has a non-zero high nibble?"""
    bs = bytes.fromhex(case[0])
    for tok in rendered.split():
        t = tok.strip("[]")
        if tok.startswith("[") and t.isdigit():
            v = int(t)
            for j in range(len(bs) - 2):
                if bs[j] == v & 0xFF and bs[j + 1] == (v >> 8) & 0xFF and bs[j + 2] & 0x0F == v >> 16 and bs[j + 2] >> 4:
                    return True
    return False


BCD = {"DADL", "DSBL", "DSLL", "DSRL"}
RUNS = {"ADCL", "SBCL", "DADL", "DSBL", "DSLL", "DSRL"}


def mem0(case, a):
    """initial content of address a for a wire case (explicit cells, instruction bytes at the fetch address, fill pattern)"""
    hx, addr, _regs, mem, fill = case
    if a in mem:
        return mem[a]
    if addr <= a < addr + len(hx) // 2:
        return int(hx[2 * (a - addr):2 * (a - addr) + 2], 16)
    return (a * 167 + fill * 13) % 256 if fill else 0


def not_bcd(v):
    return (v & 0x0F) > 9 or (v >> 4) > 9


def family(case, mn, py, rs, fields, rendered="", model=None):
    """root cause of a Rust/Python difference, decided from the case itself (encoding, state, the addresses the
    instruction touches) - never from the differing values, so a new cause in the same mnemonic is not absorbed"""
    key = cpu.case_key(case)
    k = key.lstrip("P")
    bs = bytes.fromhex(case[0])
    ob = bs[1:] if key.startswith("P") else bs          # opcode byte first
    regs = case[2]
    if abs_high_nibble(case, rendered):
        return "rust_does_not_mask_absolute_address_to_20_bits"
    if fields == ["f_hi"]:
        return "rust_loads_all_eight_bits_of_F"
    if mn in F_INSTR and case[2].get("F", 0) > 3 and set(fields) <= {"w", "f_hi"}:
        return "rust_pushes_all_eight_bits_of_F"
    if "w" in fields:
        masked = {}
        for a, v in rs["w"].items():
            masked[a & 0xFFFFF if a < cpu.IMEM or a >= cpu.IMEM + 0x100 else a] = v
        if masked == py["w"] and all(py[q] == rs[q] for q in cpu.REGS):
            return "rust_does_not_mask_absolute_address_to_20_bits"
    if mn == "RESET" and fields == ["pc"]:
        return "reset_vector_address"
    if mn in ("ADD", "SUB") and k in ("44", "45", "46", "4c", "4d", "4e"):
        return "register_pair_arithmetic_width_or_flags"
    if mn == "CMPW" and k == "d6" or mn == "CMPP" and k == "d7":
        return "compare_memory_with_register_of_other_width"
    touched = set(py["w"]) | set(rs["w"])
    if any(cpu.IMEM + 0xEC <= a <= cpu.IMEM + 0xEE for a in touched):
        return "instruction_overwrites_BP_PX_PY_it_addresses_with"
    reads = list((model or {}).get("r", []))
    data_reads = [a for a in reads if not cpu.IMEM + 0xEC <= a <= cpu.IMEM + 0xEE]
    # counted (m),(n) / (n),A runs only have internal-memory operands
    if mn in RUNS and any(a < cpu.IMEM for a in list(py["w"]) + data_reads):
        return "counted_internal_memory_run_leaves_internal_memory"
    if mn in ("DSLL", "DSRL") and regs.get("I", 0) >= 2:
        return "decimal_shift_takes_carry_digit_from_the_byte_it_just_stored"
    if mn in BCD and (any(not_bcd(mem0(case, a)) for a in data_reads) or (k in ("c5", "d5") and not_bcd(regs.get("BA", 0) & 0xFF))):
        return "bcd_operation_on_bytes_that_are_not_packed_bcd"
    if mn == "EXL":
        return "EXL_block_exchange"
    span = set(py["w"]) | set(data_reads)
    if mn in ("MVL", "MVLD") and 0xFFFFF in span and cpu.IMEM in span:
        return "external_block_run_crosses_the_top_of_the_address_space"
    if mn in ("MVL", "MVLD") and k in ("56", "5e", "f3", "fb"):
        return "rust_block_move_with_register_offset_operand_moves_one_byte"
    if mn in ("MVL", "MVLD") and k in ("e3", "eb") and len(ob) > 1 and ob[1] >> 4 == 3:
        return "block_move_with_predecrement_pointer_runs_the_other_way"
    if mn in ("MVL", "MVLD") and set(data_reads) & (set(py["w"]) | set(rs["w"])):
        return "block_move_with_overlapping_source_and_destination"
    if mn == "JP" and k == "11" and len(ob) > 1 and (ob[1] & 7) < 4:
        return "JP_through_8_or_16_bit_register"
    if mn in ("MV", "MVW", "MVP") and k in ("b0", "b1", "b2", "b3", "b4", "b5", "b6", "b7") and len(ob) > 1 and (ob[1] >> 4) in (2, 3) and (ob[1] & 7) == int(k[1]):
        return "store_of_pointer_register_through_itself_sees_the_updated_pointer"
    if mn == "RET" and (case[1] + len(bs)) >> 16 != case[1] >> 16:
        return "RET_page_taken_from_next_instruction_address"
    return "results_differ"


def program_cases(ctx):
    """random straight-line / looping programs run for N steps on both cores"""
    rng = ctx.rng
    # instructions on which the two cores agree step by step (no F push/pop, no register-pair forms, no BCD runs)
    blocks = ["00", "0805", "0912", "0a3412", "0c341201", "4003", "4801", "5005", "58ff", "6005", "6401", "6810", "7003", "7880",
              "6c00", "6c04", "7c05", "7c00", "4201", "cc3055", "8030", "a031", "c81020", "28", "38", "2a", "3a", "2c", "3c",
              "97", "9f", "e4", "e6", "f4", "f6", "dd", "12020000", "09036c007c011b06", "0902541020", "0904cb3040"]
    out = []
    n = 3000 if ctx.tier == "thorough" else 400
    for _ in range(n):
        prog = "".join(rng.choice(blocks) for _ in range(rng.randint(3, 14))) + "00" * 12
        steps = rng.randint(2, 20)
        regs = execgen.rand_regs(rng)
        regs["S"] = rng.randrange(0x8000, 0xB0000)
        regs["U"] = rng.randrange(0x8000, 0xB0000)
        regs["F"] = rng.randrange(4)
        mem = execgen.rand_mem(rng)
        for _k in range(12):
            mem[cpu.IMEM + rng.randrange(0xE0)] = rng.randrange(256)
        # fill 0: everything after the program is NOPs, so a run never wanders into random bytes
        out.append(((prog, rng.choice([0x1000, 0x20000, 0xC0000]), regs, mem, 0), steps))
    return out


def run(ctx):
    ctx.rule = ("every prefix x opcode x mode-byte structure (random operand bytes; 24 extra mode bytes per opcode in thorough) executed from random/boundary architectural states "
                "(registers, flags, BP/PX/PY, IMR, pseudo-random memory) on LlamaExecutor::execute over a flat LlamaBus and on Emulator.execute_instruction over a flat Memory: "
                "PC, BA, I, X, Y, U, S, C/Z, low-power state and final contents of every written byte compared; plus random straight-line/looping programs run N steps on both; "
                "the Coq model of the Python core (Model/Lift.v + Model/IL.v) is compared with both, so a disagreement is attributed; non-trivial = valid encoding inside the address space; distinct by bytes+state")
    ctx.trusted += ["correspondence harness: verif-harness exec_cmd.rs (FlatBus implementing LlamaBus; LlamaState set through set_reg), harness/py/exec_cmd.py, extracted model_driver",
                    "modelled not verified: the Python core as for C04; the Rust evaluator (eval.rs, 5000 lines) is NOT modelled - its agreement with the model is a correspondence result on the sampled states, so this property is decided by proof only for the lifting of single-step agreement to lockstep runs (Props/C06.v) and by differential execution for the single steps"]
    ctx.assumptions += ["domain: encodings the Python decoder accepts (a prefix followed by a prefix, or an undefined opcode, is not a valid encoding), touched addresses inside 0..0x1000FF, I>=1 for counted instructions, stack pointers away from the edges",
                        "F is compared on its architectural bits C and Z; the other six bits are reported separately"]
    ctx.prove()
    okm, okr = corr.build_all(ctx)
    if not (okm and okr):
        return
    rng = ctx.rng
    cases = execgen.exec_cases(rng, ctx.tier, temps=True)
    lines = cpu.wire(cases)
    outs = corr.run_streams(ctx, lines, {"py": ("py", "exec1"), "model": ("model", "exec_py"), "rs": ("rs", "exec1")})
    rend = corr.run_streams(ctx, [f"{c[0]} {c[1]}" for c in cases], {"model": ("model", "render")})["model"]
    dis = 0
    for case, l, p, m, r, rd in zip(cases, lines, outs["py"], outs["model"], outs["rs"], rend):
        ctx.evaluations += 1
        pm = cpu.parse(m)
        pp = cpu.parse(p)
        if pm is not None and pp is not None and cpu.diff_fields(pm, pp):
            dis += 1
            if dis <= 5:
                ctx.broke("correspondence:exec", f"`exec1 {l[:200]}` python={p[:160]} model={m[:160]}")
        why = cpu.domain(case, pm)
        if why:
            ctx.count("skipped:" + why)
            continue
        if pp is None:
            continue
        ctx.traces += 1
        mn = cpu.mnemonic(pm)
        ctx.count("mn:" + mn)
        ctx.nontrivial.add(l)
        pr = cpu.parse(r)
        if pr is None:
            ctx.report(["rs_py", "rust_rejects_valid_encoding", mn], f"{mn} ({case[0]}): Python executes it, Rust answers {r[:60]}", {"case": "exec1 " + l, "python": p[:300], "rust": r[:300]})
            continue
        fields = cpu.diff_fields(pp, pr)
        if fields:
            fam = family(case, mn, pp, pr, fields, rd, pm)
            ctx.report(["rs_py", fam] if fam == "instruction_overwrites_BP_PX_PY_it_addresses_with" else ["rs_py", fam, mn], f"{mn} ({case[0]} at {case[1]:#x}): Rust and Python differ in {fields}",
                       {"case": "exec1 " + l, "python": p[:400], "rust": r[:400], "fields": fields})
    ctx.extra.setdefault("disagreements", {})["model_vs_python"] = dis
    # programs
    progs = program_cases(ctx)
    plines = [execgen.fmt(c) + f" {n}" for c, n in progs]
    po = corr.run_streams(ctx, plines, {"py": ("py", "exec1"), "rs": ("rs", "exec1")})
    for (case, n), l, p, r in zip(progs, plines, po["py"], po["rs"]):
        ctx.evaluations += 1
        ctx.traces += 1
        pp, pr = cpu.parse(p), cpu.parse(r)
        if pp is None or pr is None:
            if (pp is None) != (pr is None):
                ctx.report(["rs_py", "program_error_on_one_core"], f"program {case[0][:40]} x{n}: python={p[:40]} rust={r[:40]}", {"case": "exec1 " + l})
            continue
        if any(a >= cpu.IMEM + 0x100 or a < 0 for a in list(pp["w"]) + list(pr["w"])):
            ctx.count("program-skipped:address-outside-address-space")
            continue
        ctx.nontrivial.add(l)
        fields = cpu.diff_fields(pp, pr)
        if fields:
            ctx.report(["rs_py", "program_diverges"], f"program {case[0][:40]}.. x{n} steps: cores differ in {fields}", {"case": "exec1 " + l, "python": p[:300], "rust": r[:300]})
    ctx.samples = [{"case": lines[0][:200], "python": outs["py"][0][:200], "rust": outs["rs"][0][:200]}]
