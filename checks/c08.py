"""C08 - register aliasing, widths and flag packing hold after any sequence of writes."""
from __future__ import annotations

import corr

NAMES = ["A", "B", "BA", "IL", "IH", "I", "X", "Y", "U", "S", "PC", "F", "FC", "FZ"] + [f"TEMP{i}" for i in range(14)]
WIDTH = {"A": 8, "B": 8, "IL": 8, "IH": 8, "F": 8, "BA": 16, "I": 16, "X": 20, "Y": 20, "U": 20, "S": 20, "PC": 20, "FC": 1, "FZ": 1}
for _i in range(14):
    WIDTH[f"TEMP{_i}"] = 24


class Spec:
    """The property's own statement as a 25-line reference (used only as witness oracle)."""

    def __init__(self):
        self.v = {k: 0 for k in ["BA", "I", "X", "Y", "U", "S", "PC", "F"] + [f"TEMP{i}" for i in range(14)]}

    def get(self, r):
        v = self.v
        if r in v:
            return v[r]
        return {"A": v["BA"] & 0xFF, "B": v["BA"] >> 8, "IL": v["I"] & 0xFF, "IH": v["I"] >> 8, "FC": v["F"] & 1, "FZ": (v["F"] >> 1) & 1}[r]

    def set(self, r, x):
        v = self.v
        x &= (1 << WIDTH[r]) - 1
        if r in v:
            v[r] = x
        elif r == "A":
            v["BA"] = (v["BA"] & 0xFF00) | x
        elif r == "B":
            v["BA"] = (v["BA"] & 0x00FF) | (x << 8)
        elif r == "IL":
            v["I"] = x            # writing IL clears IH
        elif r == "IH":
            v["I"] = (v["I"] & 0x00FF) | (x << 8)
        elif r == "FC":
            v["F"] = (v["F"] & ~1) | x
        elif r == "FZ":
            v["F"] = (v["F"] & ~2) | (x << 1)


def gen(ctx):
    rng = ctx.rng
    n = 200000 if ctx.tier == "thorough" else 2500
    vals = [0, 1, 2, 3, 0x7F, 0x80, 0xFF, 0x100, 0x1FF, 0xFFFF, 0x10000, 0xFFFFF, 0x100000, 0xFFFFFF, 0x1000000, 0xFFFFFFFF, 0x80000000]
    lines = []
    for _ in range(n):
        ops = []
        for _ in range(rng.randint(1, 40)):
            r = rng.random()
            if r < 0.55:
                v = rng.choice(vals) if rng.random() < 0.5 else (rng.getrandbits(32) if rng.random() < 0.7 else (1 << rng.randint(0, 31)) + rng.choice([-1, 0, 1]))
                ops.append(f"s:{rng.choice(NAMES) if rng.random() < 0.8 else rng.choice(NAMES[:14])}:{v & 0xFFFFFFFF}")
            elif r < 0.9:
                ops.append(f"g:{rng.choice(NAMES[:14]) if rng.random() < 0.8 else rng.choice(NAMES)}")
            elif r < 0.95:
                ops.append("snap")
            else:
                ops.append("blob")
        lines.append(" ".join(ops))
    return lines


def oracle(ctx, name, line, obs):
    sp = Spec()
    ops = line.split()
    res = obs.split(";")
    if len(res) != len(ops):
        ctx.report([name, "answer-shape"], f"{name}: {len(res)} observations for {len(ops)} ops: {obs[:80]}", {"case": line})
        return
    for k, (op, ob) in enumerate(zip(ops, res)):
        p = op.split(":")
        if p[0] == "s":
            sp.set(p[1], int(p[2]))
            exp = str(sp.get(p[1]))
            kind = "read_after_write"
        elif p[0] == "g":
            exp = str(sp.get(p[1]))
            kind = "read_overlap_or_frame"
        else:
            exp = ",".join(str(sp.get(r)) for r in NAMES)
            kind = "snapshot_roundtrip" if p[0] == "snap" else "blob_roundtrip"
        if ob != exp:
            reg = p[1] if len(p) > 1 else "*"
            ctx.report([name, kind, reg], f"{name}: after `{' '.join(ops[:k + 1])[-200:]}` {op} gives {ob[:60]}, expected {exp[:60]}", {"case": " ".join(ops[:k + 1]), "op_index": k, "got": ob, "expected": exp})
            return


def run(ctx):
    ctx.rule = ("random sequences (1..40 ops) of writes of 32-bit values (boundary values, powers of two +-1, random) to any named register/flag/TEMPn, "
                "reads, snapshot->apply-to-fresh and blob pack/unpack round trips; non-trivial = the sequence writes at least one sub-register or flag and reads an overlapping one; distinct by text")
    ctx.trusted += ["correspondence harness: harness/py/regs_cmd.py (Registers, CPURegistersSnapshot, _pack/_unpack_register_bytes), verif-harness regs_cmd.rs (LlamaState, collect/apply_registers, pack/unpack_registers), extracted model_driver",
                    "modelled not verified: emulator.py Registers.get/set, stepper.py CPURegistersSnapshot, state.rs get_reg/set_reg, lib.rs collect/apply_registers, snapshot.rs pack/unpack (bit operations transcribed arithmetically)"]
    ctx.assumptions += ["written values are 32-bit (Rust u32)", "IMR pseudo-register of the Rust RegName enum is outside the property (Python has no such register)"]
    ctx.prove()
    okm, okr = corr.build_all(ctx)
    lines = gen(ctx)
    streams = {"py": ("py", "regs_py")}
    if okr:
        streams["rs"] = ("rs", "regs_rs")
    if okm:
        streams["mpy"] = ("model", "regs_py")
        streams["mrs"] = ("model", "regs_rs")
    outs = corr.run_streams(ctx, lines, streams)
    corr.compare(ctx, "regs", lines, outs, [("py", "mpy"), ("rs", "mrs")])
    sub = {"A", "B", "IL", "IH", "FC", "FZ"}
    for i, l in enumerate(lines):
        ctx.evaluations += 1
        ops = l.split()
        wrote = {o.split(":")[1] for o in ops if o.startswith("s:")}
        read = {o.split(":")[1] for o in ops if o.startswith("g:")}
        if wrote & sub and read & {"BA", "I", "F", "A", "B", "IL", "IH", "FC", "FZ"}:
            ctx.nontrivial.add(l)
        for op in ops:
            ctx.count(op.split(":")[0])
        for nm in ("py", "rs"):
            if nm in outs:
                if outs[nm][i].startswith("ERR") or outs[nm][i] == "MISSING":
                    ctx.report([nm, "error", outs[nm][i][:40]], f"{nm} failed: {outs[nm][i]}", {"case": l})
                else:
                    oracle(ctx, nm, l, outs[nm][i])
        if "rs" in outs and outs["py"][i] != outs["rs"][i] and not outs["py"][i].startswith("ERR"):
            ctx.report(["py_rs_differ"], "Python and Rust register files return different values for the same sequence", {"case": l, "py": outs["py"][i][:300], "rs": outs["rs"][i][:300]})
        ctx.traces += 1
    ctx.samples = [{"case": lines[i], "python": outs["py"][i]} for i in (0, 1)]
