"""C09 - disassembled text reassembles to an equivalent instruction."""
from __future__ import annotations

import re

import corr
from checks import execgen

MODES = {"N": "(0x10)", "BP_N": "(BP+0x10)", "PX_N": "(PX+0x10)", "PY_N": "(PY+0x10)", "BP_PX": "(BP+PX)", "BP_PY": "(BP+PY)"}
SHOW = {"N": "(10)", "BP_N": "(BP+10)", "PX_N": "(PX+10)", "PY_N": "(PY+10)", "BP_PX": "(BP+PX)", "BP_PY": "(BP+PY)"}
SINGLE = ["MV A, {}", "ADD A, {}", "MV {}, A", "INC {}", "ROR {}", "CMP {}, A", "MV A, [{}]", "MV [{}], A", "MV {}, [X]", "JP {}"]


DIRECT = re.compile(r"\((?!BP\+|PX\+|PY\+)[^()\[\]]+\)")


def defaulted(text, text2):
    """is text2 the text with every internal-memory operand shown in the default (BP+n) mode - i.e. what the decoder
    shows when the assembler emitted no prefix byte at all?"""
    if not text2:
        return False
    pat = re.escape(text.replace("(PX+", "(BP+").replace("(PY+", "(BP+"))
    pat = re.sub(r"\\\((?!BP\\\+)([A-Za-z0-9_]+)\\\)",
                 lambda m: r"\(BP\+" + (m.group(1) if re.fullmatch(r"[0-9A-F]{2}", m.group(1)) else r"[0-9A-F]{2}") + r"\)", pat)
    return re.fullmatch(pat, text2) is not None


def shape(text):
    """mnemonic + operand forms with numbers and pointer registers abstracted: MVL___[X++],_(PX+10) -> MVL [R++],(PX+N)"""
    mn, _, ops = text.partition("_")
    ops = ops.replace("_", "")
    ops = re.sub(r"\b[0-9A-F]{2,6}\b", "N", ops)
    ops = re.sub(r"(?<![A-Z])(X|Y|U|S)(?![A-Z])", "R", ops)
    return f"{mn} {ops}"


def operand_class(text):
    """the instruction classes the recorded finding names (wide transfers and compares, JP (n), 8-bit MV with a register-indirect
    external operand, MVL [r3+-n]); anything else is its own class (the exact shape), hence a new signature"""
    sh = shape(text)
    mn, _, ops = sh.partition(" ")
    if mn in ("MVW", "MVP", "CMPW", "CMPP", "JP"):
        return mn
    if mn == "MV" and "[" in ops:
        return "MV_with_external_memory_operand"
    if mn == "MVL" and ("[R+N]" in ops or "[R-N]" in ops):
        return "MVL_[r3+-n]"
    return sh


def family(text, text2, f, kind="OK"):
    """root cause, from the shape of the text AND the shape of what came back (so that another way of getting the same
    text wrong is a different signature)"""
    if "(BP+PX)" in text and "(BP+PY)" in text:
        return "pair_(BP+PX),(BP+PY)_rejected" if kind == "ASMERR" else None
    if "(BP+PX)" in text or "(BP+PY)" in text:
        return "register_indexed_operand_(BP+PX)/(BP+PY)_loses_the_operand_byte_the_decoder_consumes"
    if f is not None and f.get("same_text") == "1" and f.get("same_il") != "1" and text.split("_")[0] in ("ADD", "SUB", "MV", "EX"):
        mn = text.split("_")[0]
        if mn in ("ADD", "SUB"):
            # the recorded finding: the assembler picks the opcode form by the width of the FIRST register written
            first = text.partition("_")[2].replace("_", "").split(",")[0]
            w = {"A": 1, "B": 1, "IL": 1, "IH": 1, "BA": 2, "I": 2, "X": 3, "Y": 3, "U": 3, "S": 3}.get(first)
            exp = {"ADD": {1: "46", 2: "44", 3: "45"}, "SUB": {1: "4e", 2: "4c", 3: "4d"}}[mn].get(w)
            new = f.get("new", "")
            if exp is None or exp not in (new[0:2], new[2:4]):
                return "register_pair_opcode_not_the_form_of_the_first_register"
        return "text_does_not_determine_the_register_pair_opcode"
    if kind == "OK" and f is not None and f.get("same_text") != "1" and defaulted(text, text2):
        # the assembler emitted no prefix byte: every internal operand comes back in the default mode
        if "[(" in text:
            return "pointer_cell_addressing_mode_of_[(..)]_not_encoded"
        if DIRECT.search(text):
            return "direct_(n)_operand_assembled_without_the_prefix_that_selects_direct_addressing"
        return "addressing_prefix_not_emitted_for_this_operand_class"
    return None


def run(ctx):
    ctx.rule = ("every prefix x opcode x mode-byte structure with random operand bytes that get_instruction_text accepts: render -> source text (numbers as 0x literals, named internal registers by name) -> "
                "Assembler.assemble at the same address -> decode: same text, same lifted IL, bytes stable under a second round, same length, all bytes consumed; "
                "plus single-operand instruction templates written with each of the six internal addressing modes, assembled and decoded back; non-trivial = accepted encoding; distinct by bytes")
    ctx.trusted += ["correspondence harness: harness/py/asm_cmd.py reasm (token text -> source with 0x literals), il_cmd.py il_text",
                    "modelled not verified: PRE_TABLE / REVERSE_PRE_TABLE / SINGLE_OPERAND_PRE_LOOKUP (regenerated into Gen/Tables.v); NOT modelled: the lark grammar, AsmTransformer and template matching of _build_instruction - decided on the implementation for every accepted encoding structure"]
    ctx.assumptions += ["the text fed to the assembler is the token text with integer and address tokens prefixed by 0x"]
    ctx.prove(["C09_single_operand_py_refuted (Props/C09_refuted.v)"])
    rng = ctx.rng
    ibytes = execgen.instr_bytes(rng, ctx.tier == "thorough")
    lines = [f"{b.hex()} {rng.choice([0, 0x1000, 0x2FFF0, 0x80000, rng.randrange(0xF0000)])}" for b in ibytes]
    if ctx.tier != "thorough":
        lines = lines[::3]                       # the parser makes each round trip cost ~1 ms; quick keeps every third structure
    out = corr.run_streams(ctx, lines, {"py": ("py", "reasm")})["py"]
    for l, a in zip(lines, out):
        ctx.evaluations += 1
        if a.startswith("NOTEXT"):
            ctx.count("not-accepted")
            continue
        text = a.split("| text=")[1].split(" |")[0] if "| text=" in a else ""
        mn = text.split("_")[0]
        if mn.startswith("PRE") or mn.startswith("???"):
            ctx.count("skipped:lone-prefix-or-undefined-opcode")       # not instructions (C01 finding / unknown opcode placeholder)
            continue
        ctx.traces += 1
        ctx.nontrivial.add(l)
        ctx.count("mn:" + mn)
        fam = None
        if a.startswith("ASMERR") or a.startswith("REDIS-FAIL"):
            fam = family(text, None, None, a.split(" ")[0]) or "rendered_text_rejected_by_assembler"
        else:
            f = dict(t.split("=") for t in a.split(" | ")[0].split()[1:])
            text2 = a.split("| text2=")[1] if "| text2=" in a else ""
            if f["same_text"] != "1":
                fam = family(text, text2, f) or "reassembled_bytes_disassemble_to_other_text"
            elif f["consumed"] != "1":
                fam = family(text, text2, f) or "assembled_bytes_are_not_one_instruction"
            elif f["same_len"] == "1" and f["same_il"] != "1":
                fam = family(text, text2, f) or "reassembled_instruction_lifts_differently"
            elif f["stable"] != "1":
                fam = "second_round_changes_the_bytes"
            elif f["same_len"] != "1":
                ctx.count("canonicalised-prefix")      # a prefix without effect dropped, or the default (BP+n) prefix made explicit: same text, same meaning
        if fam:
            sig = ["py", fam]
            if fam == "addressing_prefix_not_emitted_for_this_operand_class":
                sig.append(operand_class(text))  # which operand class: the finding is a list of classes, not "any operand"
            ctx.report(sig, f"{mn} `{text}` (from {l.split()[0]}): {a[:200]}", {"case": "reasm " + l, "answer": a[:400]})
    # addressing mode written in the text vs mode the decoder shows for the emitted bytes
    srcs, meta = [], []
    for tpl in SINGLE:
        for m, txt in MODES.items():
            srcs.append(("    " + tpl.format(txt) + "\n").encode().hex())
            meta.append((tpl, m))
    ao = corr.run_streams(ctx, srcs, {"py": ("py", "asm")}, sharded=False)["py"]
    dl, dm = [], []
    for (tpl, m), a in zip(meta, ao):
        ctx.evaluations += 1
        if not a.startswith("OK"):
            ctx.count("template-rejected")
            continue
        hx = a.split("segs=")[1].split(" ")[0].split(":")[1]
        dl.append(f"{hx} 0")
        dm.append((tpl, m, hx))
    ro = corr.run_streams(ctx, dl, {"py": ("py", "render")}, sharded=False)["py"] if dl else []
    for (tpl, m, hx), r in zip(dm, ro):
        shown = r
        want = {"N": "(N:16)", "BP_N": "(BP_N:16)", "PX_N": "(PX_N:16)", "PY_N": "(PY_N:16)", "BP_PX": "(BP_PX)", "BP_PY": "(BP_PY)"}[m]
        if want not in shown:
            got = "+".join(sorted(set(re.findall(r"\((N|BP_N|PX_N|PY_N|BP_PX|BP_PY)[:)]", shown)))) or ("rejected" if not shown.startswith("OK") else "none")
            ctx.report(["py", "assembler_emits_encoding_with_other_addressing_mode", m, got], f"mode {m}: `{tpl.format(MODES[m])}` assembles to {hx}, which the decoder renders as {shown}", {"source": tpl.format(MODES[m]), "bytes": hx, "render": shown})
        else:
            ctx.nontrivial.add(tpl + m)
    ctx.samples = [{"case": lines[0], "answer": out[0][:300]}]
