"""C14 - keyboard reads show exactly the held keys on strobed columns; events ordered; FIFO bounded."""
from __future__ import annotations

import common
import corr

PY_KEYS = None


def py_key_codes():
    global PY_KEYS
    if PY_KEYS is None:
        txt = (common.COQ / "Gen" / "KbdTables.v").read_text()
        import re
        m = re.search(r"py_key_codes : list N := \[(.*?)\]", txt)
        PY_KEYS = [int(x) for x in m.group(1).split(";")]
    return PY_KEYS


def gen(ctx):
    rng = ctx.rng
    keys = py_key_codes()
    n = 30000 if ctx.tier == "thorough" else 1200
    lines = []
    for _ in range(n):
        pt = rng.choice([1, 1, 2, 3, 6])
        rt = rng.choice([1, 2, 3, 6])
        dl = rng.choice([0, 1, 2, 4, 24])
        iv = rng.choice([1, 2, 3, 6]) if rng.random() < 0.9 else 0
        ah = 1 if rng.random() < 0.7 else 0
        rep = 1 if rng.random() < 0.85 else 0
        irq = 1 if rng.random() < 0.7 else 0
        if iv == 0 or rep == 0:
            # configurations where the two repeat implementations are documented to differ: keep them in sync
            iv, rep = (iv or 2), 1
        ops = []
        pool = rng.sample(keys, rng.randint(1, 4))
        if rng.random() < 0.5:
            # two keys sharing a row on different columns, or sharing a column
            k = rng.choice(keys)
            pool += [c for c in keys if c % 8 == k % 8][:2] + [c for c in keys if c // 8 == k // 8][:2]
        strobe_all = (0xFF, 0x07) if ah else (0x00, 0x00)
        for _ in range(rng.randint(5, 70)):
            r = rng.random()
            if r < 0.16:
                ops.append(f"p:{rng.choice(pool) if rng.random() < 0.95 else rng.randrange(128)}")
            elif r < 0.28:
                ops.append(f"r:{rng.choice(pool)}")
            elif r < 0.38:
                col = rng.choice(pool) // 8
                v = rng.choice([strobe_all[0], 0, 0xFF, 1 << (col % 8) if col < 8 else 0, rng.randrange(256)])
                ops.append(f"kol:{v}")
            elif r < 0.44:
                col = rng.choice(pool) // 8
                v = rng.choice([strobe_all[1], 0, 0x0F, 1 << (col - 8) if col >= 8 else 0, rng.randrange(16)])
                ops.append(f"koh:{v}")
            elif r < 0.82:
                ops += ["t"] * rng.choice([1, 1, 2, 3, 7])
            elif r < 0.90:
                ops.append("rd")
            elif r < 0.95:
                ops.append(f"inj:{rng.choice(pool)}:{rng.randrange(2)}")
            else:
                ops.append("con")
        if rng.random() < 0.08:
            # chattering key: debounced, released, pressed again before the release interval has passed, held on
            k0 = rng.choice(pool)
            ops = [f"kol:{strobe_all[0]}", f"koh:{strobe_all[1]}", f"p:{k0}"] + ["t"] * (pt + rng.randint(0, 3))
            ops += [f"r:{k0}"] + ["t"] * rng.randint(0, max(0, rt - 1)) + [f"p:{k0}"] + ["t"] * (pt + rng.randint(1, 6)) + ["rd"]
            lines.append(f"{pt} {rt} 24 6 {ah} {rep} {irq} " + " ".join(ops))
            continue
        if rng.random() < 0.10:
            # idle columns: a key is debounced, then every column is unstrobed, the key released and time passes; then the columns
            # are strobed again and the key-input register is read
            k0 = rng.choice(pool)
            idle = (0x00, 0x00) if ah else (0xFF, 0x0F)
            ops = [f"kol:{strobe_all[0]}", f"koh:{strobe_all[1]}", f"p:{k0}"] + ["t"] * (pt + rng.randint(1, 3))
            ops += [f"kol:{idle[0]}", f"koh:{idle[1]}"] + ["t"] * rng.randint(0, 2) + [f"r:{k0}"] + ["t"] * (rt + rng.randint(3, 8))
            ops += [f"kol:{strobe_all[0]}", f"koh:{strobe_all[1]}", "t", "rd", "t"]
            lines.append(f"{pt} {rt} {dl} {iv} {ah} {rep} {irq} " + " ".join(ops))
            continue
        if rng.random() < 0.12:
            # injection-only history: keys are pressed and released through inject only (press when up, release when down),
            # all columns strobed, the queue consumed often: the event grammar must hold for the injected keys too
            ops = [f"kol:{strobe_all[0]}", f"koh:{strobe_all[1]}"]
            isdown = set()
            for _ in range(rng.randint(4, 30)):
                r = rng.random()
                if r < 0.35:
                    c = rng.choice(pool)
                    ops.append(f"inj:{c}:{1 if c in isdown else 0}")
                    isdown ^= {c}
                elif r < 0.85:
                    ops += ["t"] * rng.choice([1, 2, 3, 7, rt + 1])
                else:
                    ops.append("con")
            lines.append(f"{pt} {rt} {dl} {iv} {ah} {rep} {irq} " + " ".join(ops))
            continue
        if rng.random() < 0.15:
            # overflow burst: many keys debounce in the same tick
            burst = rng.sample(keys, 12)
            ops = [f"kol:{strobe_all[0]}", f"koh:{strobe_all[1]}"] + [f"p:{c}" for c in burst] + ["t"] * (pt + 1) + ops
        lines.append(f"{pt} {rt} {dl} {iv} {ah} {rep} {irq} " + " ".join(ops))
    return lines


def active(ah, kol, koh, col):
    bit = (kol >> col) & 1 if col < 8 else (koh >> (col - 8)) & 1
    return bool(bit) if ah else not bit


def oracle(ctx, name, line, obs, cap, koh_mask, valid=None):
    """Property clauses checked on an implementation's own answers with a 40-line reference of what the
    property allows (not of how the code works): soundness of KIL, completeness, per-key event grammar,
    FIFO bound / drop-oldest, KEYI gate."""
    w = line.split()
    pt, rt, dl, iv, ah, rep, irq = [int(x) for x in w[:7]]
    ops = w[7:]
    res = obs.split(";")
    if len(res) != len(ops):
        ctx.report([name, "answer-shape"], f"{name}: {len(res)} answers for {len(ops)} ops", {"case": line})
        return
    kol = 0 if ah else 0xFF
    koh = 0 if ah else 0x0F
    if name == "rs":
        kol = koh = 0
    held = {}          # code -> ticks held while strobed (consecutive)
    pressed = set()
    released_ago = {}  # code -> scan ticks since release / unstrobe
    down = {}          # code -> True after Press, False after Release (event grammar)
    repressed = {}     # code -> released and pressed again since its last press/repeat event
    pressed_since_event = {}
    was_released = set()
    fifo_ref = []
    injected = False
    lossy = False
    repress_seen = False
    prev_isr = 0
    since_evt = {}     # code -> strobed scan ticks since its last press / repeat event
    first_rep = {}     # code -> the next repeat is the first one after a press event
    ticks_since = {}   # code -> scan ticks (strobed or not) since the key's last press / repeat event
    since_press = {}   # code -> scan ticks since the latest press call for the key
    # the chattering-key clause is judged on histories of one key with all columns strobed from the start and plain ticks only
    _keys = {o.split(":")[1] for o in ops if o.startswith(("p:", "r:"))}
    simple_chatter = (len(_keys) == 1 and not any(o.startswith(("kol:", "koh:")) for o in ops[2:]) and ops[:2] == (["kol:255", "koh:7"] if ah else ["kol:0", "koh:0"])
                      and not any(o.startswith(("inj:", "con")) for o in ops) and "rd" not in ops[:-1])
    await_rel = {}     # code -> scan ticks since the release call of a key whose press event was seen (its release event is due)
    inj_only = any(o.startswith("inj:") for o in ops) and not any(o.startswith(("p:", "r:", "rd")) for o in ops)
    if inj_only:
        # ... with every column strobed from the first operation on (an injected key on an idle column is scanned as released)
        strobe = ["kol:255", "koh:7"] if ah else ["kol:0", "koh:0"]
        if ops[:2] != strobe or any(o.startswith(("kol:", "koh:")) for o in ops[2:]):
            inj_only = False
    if inj_only:
        # well-formed injection history: press only keys that are up, release only keys that are down
        dn = set()
        for o in ops:
            if o.startswith("inj:"):
                _, c, rel = o.split(":")
                if (rel == "1") != (c in dn):
                    inj_only = False
                    break
                dn ^= {c}
    dirty = set()      # keys touched by press/release calls or unstrobed since their last event: cadence not judged
    for k, (op, ob) in enumerate(zip(ops, res)):
        f = [int(x) for x in ob.split(",")]
        r, latch, irqs, isr, fifo = f[0], f[1], f[2], f[3], f[4:]
        p = op.split(":")
        ticks = 0
        if name == "rs" and p[0] == "rd":
            lossy = True           # the Rust KIL read scans and drains the queue in one step: its events are never observable
        if p[0] in ("p", "r", "inj") and valid is not None and int(p[1]) not in valid:
            continue_after = True      # not a key of this implementation: the call is ignored
        else:
            continue_after = False
        if p[0] == "p" and int(p[1]) in pressed:
            repress_seen = True
        if p[0] in ("p", "r", "inj"):
            dirty.add(int(p[1]))
        if p[0] == "p" and not continue_after:
            c = int(p[1])
            since_press[c] = 0
            await_rel.pop(c, None)
            if c not in pressed:
                pressed.add(c)
                held[c] = 0
                if c in was_released and down.get(c, False) and released_ago.get(c, 0) > rt:
                    # physically released for longer than the release interval, then pressed again
                    repressed[c] = True
                was_released.discard(c)
        elif p[0] == "r" and not continue_after:
            c = int(p[1])
            if c in pressed and down.get(c, False):
                await_rel.setdefault(c, 0)
            if c in pressed:
                was_released.add(c)
            if c in pressed or c in released_ago:
                released_ago[c] = 0        # the latest release call counts as the moment of release
            pressed.discard(c)
            held.pop(c, None)
            released_ago.setdefault(c, 0)
        elif p[0] == "kol":
            kol = int(p[1]) & 0xFF
        elif p[0] == "koh":
            koh = int(p[1]) & koh_mask
        elif p[0] == "inj":
            injected = True
        elif p[0] == "con":
            fifo_ref = []
        if p[0] in ("t", "rd"):
            ticks = 1
            for c in list(pressed):
                if active(ah, kol, koh, c // 8):
                    held[c] = held.get(c, 0) + 1
                else:
                    held[c] = 0
            for c in list(released_ago):
                released_ago[c] += 1
            for c in list(ticks_since):
                ticks_since[c] += 1
            for c in list(since_press):
                since_press[c] += 1
            for c in list(since_evt):
                if c in pressed and active(ah, kol, koh, c // 8):
                    since_evt[c] += 1
                else:
                    dirty.add(c)
        # --- FIFO: bounded; new contents = old contents minus a dropped prefix, plus new bytes
        if len(fifo) > cap:
            ctx.report([name, "fifo_exceeds_capacity"], f"{name}: FIFO holds {len(fifo)} > {cap} entries", {"case": " ".join(w[:7] + ops[:k + 1]), "fifo": fifo})
            return
        if p[0] not in ("con",) and not (name == "rs" and p[0] == "rd"):
            # old entries may only disappear from the front
            old = fifo_ref
            keep = 0
            best = None
            cands = [drop for drop in range(len(old) + 1) if fifo[:len(old) - drop] == old[drop:]]
            if cands:
                best = cands[0]
                if p[0] == "t":
                    # repeated identical bytes make the split ambiguous: prefer the one consistent with the tick's event count
                    pref = [d for d in cands if len(fifo) - (len(old) - d) == min(r, cap)]
                    if pref:
                        best = pref[0]
            if best is None:
                ctx.report([name, "fifo_not_drop_oldest"], f"{name}: FIFO {fifo} is not a suffix-extension of {old} after {op}", {"case": " ".join(w[:7] + ops[:k + 1])})
                return
            new = fifo[len(old) - best:]
            if best > 0 and len(fifo) < cap:
                ctx.report([name, "fifo_dropped_while_not_full"], f"{name}: {best} entries dropped while FIFO holds {len(fifo)} < {cap}", {"case": " ".join(w[:7] + ops[:k + 1])})
                return
            if p[0] == "t" and len(new) != min(r, cap):
                ctx.report([name, "fifo_drops_newest"], f"{name}: a scan tick produced {r} events but only {len(new)} new entries are queued (capacity {cap}): newer events were dropped instead of the oldest", {"case": " ".join(w[:7] + ops[:k + 1]), "fifo_before": old, "fifo_after": fifo})
                return
            if best > 0 or (p[0] == "t" and r != len(new)):
                lossy = True       # the queue overflowed: some events were never observable, stop judging the grammar
            # --- a key held on a strobed column for exactly the debounce interval produces its press event now
            if p[0] == "t" and not injected and not lossy and not repress_seen:
                for c in pressed:
                    if held.get(c, 0) == pt and not down.get(c, False) and c not in [b & 0x7F for b in new if not b & 0x80]:
                        ctx.report([name, "press_event_late"], f"{name}: key {c} has been held on a strobed column for {pt} scan ticks (the debounce interval) but no press event was queued", {"case": " ".join(w[:7] + ops[:k + 1])})
                        return
            # --- per-key event grammar (scan-generated events only)
            if (p[0] in ("t", "rd") and not injected and not lossy) or (inj_only and p[0] in ("t", "inj") and not lossy):
                for b in new:
                    c, rel = b & 0x7F, bool(b & 0x80)
                    if rel and not down.get(c, False):
                        ctx.report([name, "release_without_press"], f"{name}: release event for key {c} without a preceding press", {"case": " ".join(w[:7] + ops[:k + 1])})
                        return
                    if not rel and down.get(c, False) and c not in pressed_since_event.get(c, set()):
                        pass
                    if not rel and down.get(c, False) and repressed.get(c, False):
                        ctx.report([name, "press_event_without_release_event"], f"{name}: key {c} was released and pressed again but a new press event arrives with no release event in between", {"case": " ".join(w[:7] + ops[:k + 1])})
                        return
                    if not rel and down.get(c, False):
                        # a repeat event: not before the configured delay (first) / interval (later ones) has passed since the last event;
                        # judged only for keys left alone (no press/release call, column strobed throughout) since their press event
                        if not repressed.get(c, False) and c in since_evt and rep and c not in dirty:
                            need = dl if first_rep.get(c, True) else iv
                            if since_evt[c] < need:
                                ctx.report([name, "repeat_event_early"], f"{name}: key {c} repeats {since_evt[c]} strobed ticks after its previous event; the configured {'delay' if first_rep.get(c, True) else 'interval'} is {need}",
                                           {"case": " ".join(w[:7] + ops[:k + 1])})
                                return
                        elif rep and c in ticks_since and c in dirty and not repressed.get(c, False) and simple_chatter:
                            # a key that was released and pressed again inside the release interval is still the same logical
                            # press: another press-like event cannot come sooner after its previous event than the cadence allows
                            # allowed: the cadence simply continues (>= interval, or >= delay for the first repeat, since the
                            # previous event), or the repeat delay was re-armed by the second press (>= delay since that press)
                            need = dl if first_rep.get(c, True) else iv
                            if ticks_since[c] < need and since_press.get(c, 10 ** 9) < dl:
                                ctx.report([name, "second_press_event_for_one_logical_press"], f"{name}: key {c} produces another press/repeat event {ticks_since[c]} scan ticks after its previous one and {since_press.get(c)} after it was pressed again (delay {dl}, interval {iv}) although no release event lies in between",
                                           {"case": " ".join(w[:7] + ops[:k + 1])})
                                return
                        first_rep[c] = False
                        since_evt[c] = 0
                        ticks_since[c] = 0
                    elif not rel:
                        first_rep[c] = True
                        since_evt[c] = 0
                        ticks_since[c] = 0
                        dirty.discard(c)
                    else:
                        since_evt.pop(c, None)
                    down[c] = not rel
                    if not rel:
                        repressed[c] = False
        fifo_ref = fifo if not (name == "rs" and p[0] == "rd") else []
        if name == "rs" and p[0] == "rd":
            fifo_ref = fifo
        # --- KIL soundness / completeness on reads
        if p[0] == "rd" and not injected:
            for row in range(8):
                if (r >> row) & 1:
                    ok = any((c % 8 == row) and active(ah, kol, koh, c // 8) and (c in pressed or released_ago.get(c, 99) <= rt) for c in set(pressed) | set(released_ago))
                    if not ok:
                        ctx.report([name, "kil_unsound"], f"{name}: KIL read shows row {row} but no held/recently released key of that row is on a strobed column", {"case": " ".join(w[:7] + ops[:k + 1]), "kil": r})
                        return
            for c in pressed:
                if active(ah, kol, koh, c // 8) and held.get(c, 0) >= pt and not (r >> (c % 8)) & 1:
                    sig = [name, "kil_incomplete", "after_press_of_already_pressed_key"] if repress_seen else [name, "kil_incomplete"]
                    ctx.report(sig, f"{name}: key {c} held {held[c]} strobed ticks (threshold {pt}) but KIL read {r:#x} lacks row {c % 8}", {"case": " ".join(w[:7] + ops[:k + 1])})
                    return
        # --- KEYI gate
        if (isr & 4) and not (prev_isr & 4):
            if not irq or not fifo:
                ctx.report([name, "keyi_without_pending_or_enable"], f"{name}: KEYI raised with kb_irq={irq} fifo={fifo}", {"case": " ".join(w[:7] + ops[:k + 1])})
                return
        prev_isr = isr
    # --- every held key must eventually have produced a press when held long enough (checked at end)
    return


def run(ctx):
    ctx.rule = ("random op sequences (5..80 ops) over {press, release, write KOL, write KOH, scan tick(s), read KIL, inject, consume} with random debounce/repeat settings and both polarities, "
                "keys sharing rows/columns, strobe changes mid-debounce, chatter, overflow bursts; non-trivial = at least one event reached the FIFO and a KIL read returned non-zero; distinct by text")
    ctx.trusted += ["translator tr_kbd.py (key scan order, FIFO sizes, defaults)",
                    "correspondence harness: harness/py/kbd_cmd.py (PCE500KeyboardHandler + KeyboardMatrix, memory=None so no KSD masking), verif-harness kbd_cmd.rs (KeyboardMatrix press/release/handle_read/handle_write/scan_tick/inject/write_fifo_to_memory; thresholds set through the snapshot API)",
                    "modelled not verified: keyboard_matrix.py, keyboard_handler.py register layer, keyboard.rs; FIFO modelled as the list fifo_snapshot returns; histogram/strobe counters, tracing, bridge mode, raw_kil and keyi_on_any_press switches not modelled"]
    ok, out = common.run_translator("tr_kbd", ["KbdTables.v"])
    if not ok:
        ctx.broke("translator:tr_kbd", out.strip()[-300:])
    ctx.prove()
    okr_ref, _ = common.coq_make(["Props/C14_refuted.vo"])
    ctx.extra["refuted_witnesses_still_reproduce"] = bool(okr_ref)
    okm, okr = corr.build_all(ctx)
    lines = gen(ctx)
    streams = {"py": ("py", "kbd_py")}
    if okr:
        streams["rs"] = ("rs", "kbd_rs")
    if okm:
        streams["mpy"] = ("model", "kbd_py")
        streams["mrs"] = ("model", "kbd_rs")
    outs = corr.run_streams(ctx, lines, streams)
    corr.compare(ctx, "kbd", lines, outs, [("py", "mpy"), ("rs", "mrs")])
    for i, l in enumerate(lines):
        ctx.evaluations += 1
        ctx.traces += 1
        o = outs["py"][i]
        if ";" in o and any(len(x.split(",")) > 4 for x in o.split(";")) and any(op == "rd" and x.split(",")[0] != "0" for op, x in zip(l.split()[7:], o.split(";"))):
            ctx.nontrivial.add(l)
        for op in l.split()[7:]:
            ctx.count(op.split(":")[0])
        if not o.startswith("ERR") and o != "MISSING":
            oracle(ctx, "py", l, o, 7, 0x0F, set(py_key_codes()))
        else:
            ctx.report(["py", "error"], f"py failed: {o}", {"case": l})
        if "rs" in outs:
            o = outs["rs"][i]
            if not o.startswith("ERR") and o != "MISSING":
                oracle(ctx, "rs", l, o, 8, 0xFF)
            else:
                ctx.report(["rs", "error"], f"rs failed: {o}", {"case": l})
    ctx.samples = [{"case": lines[0][:300], "python": outs["py"][0][:300], "rust": outs.get("rs", [""])[0][:300]}]
