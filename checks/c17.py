"""C17 - every copy of the architecture's tables and constants says the same thing."""
from __future__ import annotations

import re

import common
from common import COQ, BUILD

DIAG = r'''
From Coq Require Import NArith List String Bool.
From BE Require Import Model.TableTypes Gen.Tables Proofs.TablesProofs.
Import ListNotations.
Open Scope N_scope.
Definition diag : list (string * list N) := [
 ("opcode_entry_differs"%string, differing_opcodes py_opcodes rs_opcodes);
 ("opcode_table_length"%string, [N.of_nat (List.length py_opcodes); N.of_nat (List.length rs_opcodes)]);
 ("pre_py_not_in_rust"%string, diag_not_in pre_eqb (fun e => fst (fst e)) py_pre_table rs_pre_table);
 ("pre_rust_not_in_py"%string, diag_not_in pre_eqb (fun e => fst (fst e)) rs_pre_table py_pre_table);
 ("pre_not_pre_class"%string, diag_not_in N.eqb (fun x => x) (map (fun e => fst (fst e)) py_pre_table) (pre_opcodes_of_table py_opcodes));
 ("pre_class_not_in_table"%string, diag_not_in N.eqb (fun x => x) (pre_opcodes_of_table py_opcodes) (map (fun e => fst (fst e)) py_pre_table));
 ("single_py_not_in_rust"%string, diag_not_in N.eqb (fun x => x) py_single_addressable rs_single_addressable);
 ("single_rust_not_in_py"%string, diag_not_in N.eqb (fun x => x) rs_single_addressable py_single_addressable);
 ("regsize_arch_vs_emulator"%string, diag_sizes (arch_sizes py_regs_arch) py_reg_sizes_emulator);
 ("regsize_decoder_vs_emulator"%string, diag_sizes py_reg_sizes_opcodes py_reg_sizes_emulator);
 ("regmask_rust_vs_python"%string, diag_masks py_pc_mask py_reg_sizes_emulator py_subregs_emulator rs_reg_masks);
 ("regmask_rust_vs_python_register_file"%string, diag_probed py_probed_masks rs_reg_masks);
 ("imem_offset_differs"%string, diag_imem py_imem_aliases rs_imem_offsets);
 ("interrupt_vector"%string, [py_interrupt_vector; rs_interrupt_vector; rs_interrupt_vector_runtime]);
 ("reset_vector"%string, [py_entry_point; rs_reset_vector; py_reset_vector_used]);
 ("address_space"%string, [py_internal_memory_start; rs_internal_memory_start; py_internal_memory_length; rs_internal_space; py_address_space_size; rs_external_space + rs_internal_space]);
 ("segments_rom_view"%string, diag_segments py_address_space_size rom_view_segments);
 ("segments_full_view"%string, diag_segments py_address_space_size full_view_segments);
 ("snapshot_layout"%string, if layout_eqb py_snapshot_layout rs_snapshot_layout then [] else [1])
].
Eval vm_compute in diag.
'''


def run_diag(ctx):
    d = BUILD / "diag"
    d.mkdir(parents=True, exist_ok=True)
    f = d / "C17diag.v"
    f.write_text(DIAG)
    with common.Lock("coq"):
        rc, out, _ = common.run(["coqc", "-Q", str(COQ), "BE", str(f)], cwd=d, timeout=600)
    if rc != 0:
        ctx.broke("diagnostic-eval", out[-300:])
        return {}
    txt = " ".join(out.split())
    res = {}
    for m in re.finditer(r'\("(\w+)"%string,\s*\[([^\]]*)\]\)', txt):
        res[m.group(1)] = [int(x) for x in m.group(2).replace("%N", "").split(";") if x.strip()]
    return res


def run(ctx):
    ctx.rule = ("every table entry / constant read from the working tree by translators/tr_tables.py; each clause is a decidable comparison "
                "evaluated completely by vm_compute; an 'evaluation' is one compared entry; non-trivial = entry carries operands or a non-default value")
    ctx.exhaustive = True
    ctx.trusted += ["translator translators/tr_tables.py (imports the Python tables, tokenises the Rust const tables; fail-closed)",
                    "the Python->Rust operand mapping written once in Coq (Proofs/TablesProofs.v: entry_to_rust) after scripts/generate_llama_opcodes.py"]
    ok, out = common.run_translator("tr_tables", ["Tables.v"])
    if not ok:
        ctx.broke("translator:tr_tables", out.strip()[-300:])
        return
    proved = ctx.prove()
    diag = run_diag(ctx)
    ctx.extra["diagnostics"] = diag
    # refuted file: findings that are expected to reproduce
    okr, outr = common.coq_make(["Props/C17_refuted.vo"])
    ctx.extra["refuted_witnesses_still_reproduce"] = bool(okr)
    if not okr:
        ctx.notes.append("Props/C17_refuted.v no longer compiles: a listed finding no longer reproduces (turn its entry into fixed): " + common.coq_failure_site(outr))
    # witness oracle: every offending key is a concrete failing entry
    n_eval = 0
    if diag:
        ln = diag.get("opcode_table_length", [0, 0])
        n_eval += sum(ln)
        if ln != [256, 256]:
            ctx.report(["opcode_table_length", ln], f"opcode tables have {ln} entries", {"lengths": ln})
        for key in ("opcode_entry_differs", "pre_py_not_in_rust", "pre_rust_not_in_py", "pre_not_pre_class", "pre_class_not_in_table",
                    "single_py_not_in_rust", "single_rust_not_in_py", "regsize_arch_vs_emulator", "regsize_decoder_vs_emulator",
                    "regmask_rust_vs_python", "regmask_rust_vs_python_register_file", "imem_offset_differs", "segments_rom_view", "segments_full_view", "snapshot_layout"):
            for v in diag.get(key, []):
                ctx.report([key, v], f"{key}: entry {v:#x} differs between copies", {"clause": key, "entry": v})
        iv = diag.get("interrupt_vector", [])
        if len(set(iv)) > 1:
            ctx.report(["interrupt_vector_differs", iv], f"interrupt vector copies differ: {[hex(x) for x in iv]}", {"values": iv})
        rv = diag.get("reset_vector", [])
        if len(rv) == 3:
            if rv[0] != rv[1]:
                ctx.report(["reset_vector_constant_differs", rv[:2]], f"ENTRY_POINT_ADDR {rv[0]:#x} vs Rust ROM_RESET_VECTOR_ADDR {rv[1]:#x}", {"values": rv})
            if rv[2] != rv[1]:
                ctx.report(["reset_vector_used_differs", rv[2], rv[1]], f"Python RESET intrinsic reads the reset vector at {rv[2]:#x}, Rust (and ENTRY_POINT_ADDR) use {rv[1]:#x}", {"values": rv})
        a = diag.get("address_space", [])
        if len(a) == 6 and (a[0] != a[1] or a[2] != a[3] or a[4] != a[5]):
            ctx.report(["address_space_differs", a], "address-space constants differ", {"values": a})
    # coverage counts from the generated file
    gen = (COQ / "Gen" / "Tables.v").read_text()
    n_entries = gen.count("p_opc :=") + gen.count("r_opc :=")
    ctx.evaluations = n_entries + gen.count("; (") + gen.count("seg_name")
    for m in re.finditer(r"p_opc := (\d+);.*?p_ops := \[(.*?)\];", gen):
        if m.group(2).strip():
            ctx.nontrivial.add(int(m.group(1)))
    ctx.samples = [l.strip() for l in gen.splitlines() if "p_opc := 86;" in l or "r_opc := 86;" in l or l.startswith("Definition py_pre_table")][:3]
    ctx.traces = n_entries
