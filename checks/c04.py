"""C04 - lifted IL computes the documented result and flags for every operand value."""
from __future__ import annotations

import corr
from checks import cpu, execgen

ALU_IMM = {"ADD": 0x40, "SUB": 0x48, "ADC": 0x50, "SBC": 0x58, "CMP": 0x60, "TEST": 0x64, "XOR": 0x68, "AND": 0x70, "OR": 0x78}
BCD_RUN = {"ADCL", "SBCL", "DADL", "DSBL", "DSLL", "DSRL"}


def family(case, mn, py, spec, fields):
    """root-cause family of a documented-semantics mismatch (for the known-findings signatures)"""
    key = cpu.case_key(case)
    prefixed = key.startswith("P")
    touched = set(py["w"]) | set(py.get("r", []))
    spec_touched = set(spec["w"])
    # (m),(n) / (n),A forms only have internal-memory operands: an external access means the run left internal memory
    if mn in BCD_RUN and any(a < cpu.IMEM for a in touched):
        return "counted_internal_memory_run_does_not_wrap_at_256"
    if mn in ("ADC", "SBC", "ADCL", "SBCL"):
        return "carry_in_added_to_operand_at_operand_width"
    regs = case[2]
    bs = bytes.fromhex(case[0])
    ob = bs[1:] if prefixed else bs
    if mn in ("DSLL", "DSRL") and regs.get("I", 0) >= 2:
        return "decimal_shift_takes_carry_digit_from_the_byte_it_just_stored"
    if mn == "EXL" and regs.get("I", 0) >= 2:
        return "EXL_exchanges_the_same_cell_I_times"
    if any(cpu.IMEM + 0xEC <= a <= cpu.IMEM + 0xEE for a in set(py["w"]) | spec_touched):
        return "instruction_overwrites_BP_PX_PY_it_addresses_with"
    if mn in ("EX", "EXW", "EXP") and prefixed:
        return "exchange_ignores_PRE_addressing"
    if mn in ("MVL", "MVLD") and prefixed:
        return "block_move_takes_PRE_mode_from_the_wrong_slot"
    k = key.lstrip("P")
    if mn in ("MV", "MVW", "MVP") and k in ("b4", "b5", "b6", "b7") and len(ob) > 1 and (ob[1] >> 4) in (2, 3) and (ob[1] & 7) == int(k[1]):
        return "store_of_pointer_register_through_itself_sees_the_updated_pointer"
    if mn == "RET" and (case[1] + len(bs)) >> 16 != case[1] >> 16:
        return "RET_page_taken_from_next_instruction_address"
    if mn == "JP" and key == "P10":
        return "JP_imem_ignores_PRE_addressing"
    return "unclassified"


def exhaustive_lines(ctx):
    """op A,n for every (A, n, carry-in): the property's own 2^17 quantifier, on the implementation"""
    lines = []
    thorough = ctx.tier == "thorough"
    for mn, opc in ALU_IMM.items():
        for a in range(256):
            ns = range(256) if thorough else sorted(set([0, 1, 0x0F, 0x10, 0x7F, 0x80, 0xFE, 0xFF, a, 255 - a, (256 - a) & 255] + [ctx.rng.randrange(256) for _ in range(3)]))
            for n in ns:
                for c in (0, 1):
                    lines.append((f"{opc:02x}{n:02x}", 0x1000, {"BA": 0x5500 | a, "F": c | (ctx.rng.randrange(2) << 1)}, {}, 0))
    return lines


def run(ctx):
    ctx.rule = ("(1) lifter tie: every prefix x opcode x mode-byte structure with random operand bytes, IL text of the model lifter vs the Python lifter; "
                "(2) evaluator tie: the same structures executed from random/boundary states (registers, BP/PX/PY, I, pseudo-random memory, random TEMP contents) on the model and on Emulator.execute_instruction, "
                "registers + written memory + access logs compared; (3) documented semantics (Model/Spec.v, extracted) vs the Python emulator on the same cases and on op A,n for all A x n x carry-in "
                "(2^17 per operation in thorough); non-trivial = executable valid encoding inside the address space; distinct by instruction bytes + state")
    ctx.trusted += ["correspondence harness: harness/py/il_cmd.py (IL printer), exec_cmd.py (Emulator over a flat dict memory), extracted model_driver (il, exec_py, spec)",
                    "modelled not verified: instructions.py/opcodes.py lift methods (Model/Lift.v), binja_test_mocks eval_llil.py + Emulator._execute_instruction_impl (Model/IL.v), intrinsics.py; documented semantics transcribed from README.md tables (Model/Spec.v); "
                    "instruction-level theorems cover op A,n forms and the value-level theorems every ALU/BCD operation; memory/counted forms are tied by the spec-vs-implementation comparison only",
                    "vm_compute is used for the finite sweeps (no native_compute)"]
    ctx.assumptions += ["operand places are those of the state before the instruction (README semantics)",
                        "domain: accepted encodings, all touched addresses inside 0..0x1000FF, I>=1 for counted instructions, stack pointers not at the edge of the address space"]
    ctx.prove()
    okm, _ = corr.build_all(ctx, need_rust=False)
    if not okm:
        return
    rng = ctx.rng
    # (1) lifter tie
    ibytes = execgen.instr_bytes(rng, ctx.tier == "thorough")
    il_lines = [f"{b.hex()} {rng.choice([0, 0x1000, 0xFFFF0, 0x2FFFE, rng.randrange(1 << 20)])}" for b in ibytes]
    outs = corr.run_streams(ctx, il_lines, {"py": ("py", "il"), "model": ("model", "il")})
    dis = 0
    for l, a, b in zip(il_lines, outs["py"], outs["model"]):
        a2 = "LERR" if a.startswith("LERR") else a
        if a2 != b:
            dis += 1
            if dis <= 5:
                ctx.broke("correspondence:il-text", f"`il {l}` python={a[:200]} model={b[:200]}")
    ctx.extra.setdefault("disagreements", {})["il_text"] = dis
    ctx.count("il_text_cases", len(il_lines))
    # (2) evaluator tie + (3) spec
    cases = execgen.exec_cases(rng, ctx.tier, temps=True) + exhaustive_lines(ctx)
    lines = cpu.wire(cases)
    outs = corr.run_streams(ctx, lines, {"py": ("py", "exec_py"), "model": ("model", "exec_py"), "spec": ("model", "spec")})
    dis = 0
    nospec = 0
    for case, l, p, m, sp in zip(cases, lines, outs["py"], outs["model"], outs["spec"]):
        ctx.evaluations += 1
        mcore = m.rsplit(" | k:", 1)[0]
        if cpu.canon_err(p) != cpu.canon_err(mcore):
            dis += 1
            if dis <= 5:
                ctx.broke("correspondence:exec", f"`exec_py {l[:200]}` python={p[:160]} model={mcore[:160]}")
        pm = cpu.parse(m)
        why = cpu.domain(case, pm)
        if why:
            ctx.count("skipped:" + why)
            continue
        pp = cpu.parse(p)
        if pp is None:
            continue
        ctx.traces += 1
        mn = cpu.mnemonic(pm)
        ctx.count("mn:" + mn)
        ps = cpu.parse(sp)
        if ps is None:
            nospec += 1
            ctx.count("nospec:" + mn)
            continue
        ctx.nontrivial.add(l)
        fields = [f for f in cpu.diff_fields(pp, ps) if f != "f_hi"]
        if fields:
            fam = family(case, mn, {**pp, "r": pm.get("r", [])}, ps, fields)
            ctx.report(["py", fam] if fam == "instruction_overwrites_BP_PX_PY_it_addresses_with" else ["py", fam, mn], f"{mn} ({case[0]} at {case[1]:#x}): Python result differs from the documented effect in {fields}",
                       {"case": "exec_py " + l, "python": p[:400], "documented": sp[:400], "fields": fields})
    # long counted runs, on the implementation only
    longs = execgen.long_cases(rng, ctx.tier)
    lo = corr.run_streams(ctx, cpu.wire([c for c, _, _ in longs]), {"py": ("py", "exec1")})["py"]
    for (case, ptr, oplen), ans in zip(longs, lo):
        ctx.evaluations += 1
        pp = cpu.parse(ans)
        if pp is None:
            ctx.report(["py", "long_run_not_executed"], f"{case[0]} with I={case[2]['I']:#x}: {ans[:80]}", {"case": "exec1 " + execgen.fmt(case)})
            continue
        ctx.traces += 1
        ctx.nontrivial.add("long:" + execgen.fmt(case)[:80])
        n = case[2]["I"]
        nbytes = {"e3": 3, "eb": 3, "d3": 5, "db": 5, "cb": 3, "cf": 3}[case[0][:2]]
        bad = []
        if pp["i"] != 0:
            bad.append(f"I = {pp['i']:#x} afterwards (documented: 0)")
        if pp["pc"] != (case[1] + nbytes) & 0xFFFFF:
            bad.append(f"PC = {pp['pc']:#x}")
        if ptr and pp[ptr.lower()] != (case[2][ptr] + n) & 0xFFFFF:
            bad.append(f"{ptr} = {pp[ptr.lower()]:#x}, expected {case[2][ptr] + n:#x}")
        if len(pp["w"]) != min(n, 256) and case[0][:2] in ("e3", "d3", "cb", "cf"):
            bad.append(f"{len(pp['w'])} distinct internal bytes written, expected {min(n, 256)}")
        if len(pp["w"]) != n and case[0][:2] in ("eb", "db"):
            bad.append(f"{len(pp['w'])} external bytes written, expected {n}")
        if bad:
            ctx.report(["py", "long_counted_run_cut_short_or_overrun"], f"{case[0][:6]} with I={n:#x}: " + "; ".join(bad), {"case": "exec1 " + execgen.fmt(case), "python": ans[:200]})
    ctx.count("long_run_cases", len(longs))
    ctx.extra["disagreements"]["exec"] = dis
    ctx.extra["cases_without_spec"] = nospec
    ctx.samples = [{"case": lines[0][:200], "python": outs["py"][0][:200], "model": outs["model"][0][:200], "spec": outs["spec"][0][:200]}]
    ctx.exhaustive = ctx.tier == "thorough"
