//! verif-harness: drives the real Rust core (built from a scratch copy of /repo/sc62015/core)
//! through its public API.  One case per stdin line, one answer line per case.
mod exec_cmd;
mod irq_cmd;
mod kbd_cmd;
mod lcd_cmd;
mod mem_cmd;
mod regs_cmd;
mod sched_cmd;
mod timer_cmd;

use std::io::{self, BufRead, Write};

pub fn num(s: &str) -> u64 {
    if let Some(h) = s.strip_prefix("0x") {
        u64::from_str_radix(h, 16).expect("hex")
    } else {
        s.parse::<u64>().expect("dec")
    }
}

fn handle(words: &[&str]) -> String {
    match words.first().copied() {
        Some("timer_rs") => timer_cmd::run(&words[1..]),
        Some("timer_rs_kb") => timer_cmd::run_kb(&words[1..]),
        Some("regs_rs") => regs_cmd::run(&words[1..]),
        Some("lcd_rs") => lcd_cmd::run(&words[1..]),
        Some("kbd_rs") => kbd_cmd::run(&words[1..]),
        Some("sched") => sched_cmd::run(&words[1..]),
        Some("sched2") => sched_cmd::run2(&words[1..]),
        Some("mem_rs") => mem_cmd::run(&words[1..]),
        Some("exec1") => exec_cmd::run(&words[1..]),
        Some("irq") => irq_cmd::run(&words[1..]),
        Some("snap") => irq_cmd::snap(&words[1..]),
        Some("snapsave") => irq_cmd::snapsave(&words[1..]),
        Some("snapload") => irq_cmd::snapload(&words[1..]),
        Some("exec_split") => exec_cmd::run_split(&words[1..]),
        Some("asynccpu") => sched_cmd::run_cpu(&words[1..]),
        Some(c) => format!("ERR unknown-command {c}"),
        None => "ERR empty".to_string(),
    }
}

fn main() {
    let stdin = io::stdin();
    let stdout = io::stdout();
    let mut out = io::BufWriter::new(stdout.lock());
    for line in stdin.lock().lines() {
        let line = line.expect("stdin");
        let words: Vec<&str> = line.split_whitespace().collect();
        let res = std::panic::catch_unwind(|| handle(&words));
        let ans = match res {
            Ok(s) => s,
            Err(_) => "ERR panic".to_string(),
        };
        writeln!(out, "{ans}").unwrap();
    }
    out.flush().unwrap();
}
