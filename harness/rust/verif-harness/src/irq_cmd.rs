//! irq <imr0> <timer_en> <mti> <sti> <mainhex> <handlerhex> <nsteps> <events>: the scenario of harness/py/irq_cmd.py on CoreRuntime.
use sc62015_core::llama::opcodes::RegName;
use sc62015_core::{CoreRuntime, TimerContext};

const MAIN: u32 = 0xC1000;
const HANDLER: u32 = 0xC2000;
const STACK: u32 = 0xB9000;

fn hex(s: &str) -> Vec<u8> {
    if s == "-" {
        return vec![];
    }
    (0..s.len() / 2).map(|i| u8::from_str_radix(&s[2 * i..2 * i + 2], 16).unwrap()).collect()
}

pub fn run(w: &[&str]) -> String {
    let imr0 = w[0].parse::<u8>().unwrap();
    let ten = w[1] != "0";
    let mti = w[2].parse::<i32>().unwrap();
    let sti = w[3].parse::<i32>().unwrap();
    let main = hex(w[4]);
    let handler = hex(w[5]);
    let nsteps = w[6].parse::<usize>().unwrap();
    let mut events: Vec<(usize, String)> = vec![];
    if w.len() > 7 && w[7] != "-" {
        for t in w[7].split(',') {
            let mut it = t.split(':');
            let k = it.next().unwrap().parse::<usize>().unwrap();
            events.push((k, it.next().unwrap().to_string()));
        }
    }
    let mut rt = CoreRuntime::new();
    rt.load_rom(&main, MAIN as usize);
    rt.load_rom(&handler, HANDLER as usize);
    rt.load_rom(&HANDLER.to_le_bytes()[..3], 0xFFFFA);
    rt.state.set_reg(RegName::PC, MAIN);
    rt.state.set_reg(RegName::S, STACK);
    rt.state.set_reg(RegName::U, 0xB8000);
    *rt.timer = TimerContext::new(ten, mti, sti);
    rt.memory.write_internal_byte(0xFB, imr0);
    rt.memory.write_internal_byte(0xFC, 0);
    let mut out: Vec<String> = vec![];
    for k in 0..nsteps {
        for (ek, kind) in &events {
            if *ek == k && kind == "onk" {
                rt.press_on_key();
            }
        }
        let s_before = rt.state.get_reg(RegName::S);
        if let Err(e) = rt.step(1) {
            out.push(format!("ERR:{}", format!("{e:?}").replace([' ', ';', ','], "_").chars().take(40).collect::<String>()));
            break;
        }
        let frame: Vec<String> = (0..5)
            .map(|j| rt.memory.load(s_before.wrapping_sub(5).wrapping_add(j), 8).unwrap_or(0).to_string())
            .collect();
        out.push(format!(
            "{},{},{},{},{},{},{},{},{}",
            rt.state.pc(),
            rt.state.get_reg(RegName::S),
            rt.state.get_reg(RegName::F) & 3,
            rt.memory.read_internal_byte(0xFB).unwrap_or(0),
            rt.memory.read_internal_byte(0xFC).unwrap_or(0),
            rt.timer.in_interrupt as u8,
            rt.timer.irq_total,
            (rt.state.is_halted() || rt.state.is_off()) as u8,
            frame.join(".")
        ));
    }
    out.join(";")
}
