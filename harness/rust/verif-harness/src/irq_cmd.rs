//! irq <imr0> <timer_en> <mti> <sti> <mainhex> <handlerhex> <nsteps> <events>: the scenario of harness/py/irq_cmd.py on CoreRuntime.
use sc62015_core::llama::opcodes::RegName;
use sc62015_core::{CoreRuntime, KeyboardMatrix, TimerContext};

const MAIN: u32 = 0xC1000;
const HANDLER: u32 = 0xC2000;
const STACK: u32 = 0xB9000;

fn hex(s: &str) -> Vec<u8> {
    if s == "-" {
        return vec![];
    }
    (0..s.len() / 2).map(|i| u8::from_str_radix(&s[2 * i..2 * i + 2], 16).unwrap()).collect()
}

pub fn run(w: &[&str]) -> String {
    let imr0 = w[0].parse::<u8>().unwrap();
    let ten = w[1] != "0";
    let mti = w[2].parse::<i32>().unwrap();
    let sti = w[3].parse::<i32>().unwrap();
    let main = hex(w[4]);
    let handler = hex(w[5]);
    let nsteps = w[6].parse::<usize>().unwrap();
    let mut events: Vec<(usize, String)> = vec![];
    if w.len() > 7 && w[7] != "-" {
        for t in w[7].split(',') {
            let mut it = t.split(':');
            let k = it.next().unwrap().parse::<usize>().unwrap();
            events.push((k, it.next().unwrap().to_string()));
        }
    }
    let mut rt = CoreRuntime::new();
    rt.load_rom(&main, MAIN as usize);
    rt.load_rom(&handler, HANDLER as usize);
    rt.load_rom(&HANDLER.to_le_bytes()[..3], 0xFFFFA);
    rt.state.set_reg(RegName::PC, MAIN);
    rt.state.set_reg(RegName::S, STACK);
    rt.state.set_reg(RegName::U, 0xB8000);
    *rt.timer = TimerContext::new(ten, mti, sti);
    rt.memory.write_internal_byte(0xFB, imr0);
    rt.memory.write_internal_byte(0xFC, 0);
    let mut out: Vec<String> = vec![];
    for k in 0..nsteps {
        for (ek, kind) in &events {
            if *ek == k && kind == "onk" {
                rt.press_on_key();
            } else if *ek == k {
                let (press, name) = if let Some(n) = kind.strip_prefix("key") { (true, n) } else if let Some(n) = kind.strip_prefix("rel") { (false, n) } else { (true, "") };
                if let Some(code) = KeyboardMatrix::matrix_code_for_key_name(name) {
                    if let Some(kb) = rt.keyboard.as_mut() {
                        if press {
                            kb.press_matrix_code(code, &mut rt.memory);
                        } else {
                            kb.release_matrix_code(code, &mut rt.memory);
                        }
                    }
                }
            }
        }
        let s_before = rt.state.get_reg(RegName::S);
        if let Err(e) = rt.step(1) {
            out.push(format!("ERR:{}", format!("{e:?}").replace([' ', ';', ','], "_").chars().take(40).collect::<String>()));
            break;
        }
        let frame: Vec<String> = (0..5)
            .map(|j| rt.memory.load(s_before.wrapping_sub(5).wrapping_add(j), 8).unwrap_or(0).to_string())
            .collect();
        out.push(format!(
            "{},{},{},{},{},{},{},{},{}",
            rt.state.pc(),
            rt.state.get_reg(RegName::S),
            rt.state.get_reg(RegName::F) & 3,
            rt.memory.read_internal_byte(0xFB).unwrap_or(0),
            rt.memory.read_internal_byte(0xFC).unwrap_or(0),
            rt.timer.in_interrupt as u8,
            rt.timer.irq_total,
            (rt.state.is_halted() || rt.state.is_off()) as u8,
            frame.join(".")
        ));
    }
    out.join(";")
}

// ---- C16: snapshot at step k, continue vs restore-and-continue ---------------------------------
fn mk(imr0: u8, ten: bool, mti: i32, sti: i32, main: &[u8], handler: &[u8]) -> CoreRuntime {
    let mut rt = CoreRuntime::new();
    rt.load_rom(main, MAIN as usize);
    rt.load_rom(handler, HANDLER as usize);
    rt.load_rom(&HANDLER.to_le_bytes()[..3], 0xFFFFA);
    rt.state.set_reg(RegName::PC, MAIN);
    rt.state.set_reg(RegName::S, STACK);
    rt.state.set_reg(RegName::U, 0xB8000);
    *rt.timer = TimerContext::new(ten, mti, sti);
    rt.memory.write_internal_byte(0xFB, imr0);
    rt.memory.write_internal_byte(0xFC, 0);
    rt
}

fn obs(rt: &CoreRuntime) -> String {
    format!(
        "{},{},{},{},{},{},{},{},{},{},{},{}",
        rt.state.pc(),
        rt.state.get_reg(RegName::BA),
        rt.state.get_reg(RegName::I),
        rt.state.get_reg(RegName::S),
        rt.state.get_reg(RegName::F) & 3,
        rt.memory.read_internal_byte(0xFB).unwrap_or(0),
        rt.memory.read_internal_byte(0xFC).unwrap_or(0),
        rt.timer.in_interrupt as u8,
        rt.timer.irq_total,
        (rt.state.is_halted() || rt.state.is_off()) as u8,
        rt.keyboard.as_ref().map(|kb| kb.compute_kil(false)).unwrap_or(0),
        rt.keyboard.as_ref().map(|kb| kb.fifo_len()).unwrap_or(0)
    )
}

fn digest(rt: &CoreRuntime) -> String {
    // FNV-1a over the RAM window and the internal bytes
    let mut h: u64 = 0xcbf29ce484222325;
    let mut feed = |b: u8| {
        h ^= b as u64;
        h = h.wrapping_mul(0x100000001b3);
    };
    for a in 0xB8000u32..0xC0000u32 {
        feed(rt.memory.load(a, 8).unwrap_or(0) as u8);
    }
    for o in 0..0x100u32 {
        feed(rt.memory.read_internal_byte(o).unwrap_or(0));
    }
    // LCD: the controller registers of both chips (on, start line, page, column) and the VRAM payload
    if let Some(lcd) = rt.lcd.as_ref() {
        let (meta, payload) = lcd.export_snapshot();
        if let Some(chips) = meta.get("chips").and_then(|c| c.as_array()) {
            for chip in chips {
                for key in ["on", "start_line", "page", "y_address"] {
                    let v = match chip.get(key) {
                        Some(serde_json::Value::Bool(b)) => *b as u64,
                        Some(x) => x.as_u64().unwrap_or(0),
                        None => 0,
                    };
                    feed(v as u8);
                }
            }
        }
        for b in payload {
            feed(b);
        }
    }
    format!("{h:016x}")
}

fn run_steps(rt: &mut CoreRuntime, events: &[(usize, String)], start: usize, n: usize, out: &mut Vec<String>) {
    for k in start..start + n {
        for (ek, kind) in events {
            if *ek == k && kind == "onk" {
                rt.press_on_key();
            } else if *ek == k {
                let (press, name) = if let Some(n) = kind.strip_prefix("key") { (true, n) } else if let Some(n) = kind.strip_prefix("rel") { (false, n) } else { (true, "") };
                if let Some(code) = KeyboardMatrix::matrix_code_for_key_name(name) {
                    if let Some(kb) = rt.keyboard.as_mut() {
                        if press {
                            kb.press_matrix_code(code, &mut rt.memory);
                        } else {
                            kb.release_matrix_code(code, &mut rt.memory);
                        }
                    }
                }
            }
        }
        if let Err(e) = rt.step(1) {
            out.push(format!("ERR:{}", format!("{e:?}").replace([' ', ';', ',', '|'], "_").chars().take(40).collect::<String>()));
            return;
        }
        out.push(obs(rt));
    }
}

/// snap <imr0> <timer_en> <mti> <sti> <mainhex> <handlerhex> <k> <m> <events>
pub fn snap(w: &[&str]) -> String {
    let imr0 = w[0].parse::<u8>().unwrap();
    let ten = w[1] != "0";
    let mti = w[2].parse::<i32>().unwrap();
    let sti = w[3].parse::<i32>().unwrap();
    let main = hex(w[4]);
    let handler = hex(w[5]);
    let k = w[6].parse::<usize>().unwrap();
    let m = w[7].parse::<usize>().unwrap();
    let mut events: Vec<(usize, String)> = vec![];
    if w.len() > 8 && w[8] != "-" {
        for t in w[8].split(',') {
            let mut it = t.split(':');
            let kk = it.next().unwrap().parse::<usize>().unwrap();
            events.push((kk, it.next().unwrap().to_string()));
        }
    }
    let mut a = mk(imr0, ten, mti, sti, &main, &handler);
    let mut pre = vec![];
    run_steps(&mut a, &events, 0, k, &mut pre);
    let dir = std::env::var("VERIF_TMP").unwrap_or_else(|_| ".".to_string());
    let path = std::path::PathBuf::from(dir).join(format!("snap-{}-{}.pcsnap", std::process::id(), k));
    let mut b = mk(0, false, 0, 0, &main, &handler);
    let res = a.save_snapshot(&path).and_then(|_| b.load_snapshot(&path));
    let _ = std::fs::remove_file(&path);
    if let Err(e) = res {
        return format!("SNAPERR {}", format!("{e:?}").replace(' ', "_").chars().take(80).collect::<String>());
    }
    let (at_a, at_b) = (obs(&a), obs(&b));
    let (mut ta, mut tb) = (vec![], vec![]);
    run_steps(&mut a, &events, k, m, &mut ta);
    run_steps(&mut b, &events, k, m, &mut tb);
    let mut diffs: Vec<String> = vec![];
    for addr in 0xB8000u32..0xC0000u32 {
        let (x, y) = (a.memory.load(addr, 8).unwrap_or(0), b.memory.load(addr, 8).unwrap_or(0));
        if x != y && diffs.len() < 6 {
            diffs.push(format!("{addr:#x}:{x}/{y}"));
        }
    }
    for o in 0..0x100u32 {
        let (x, y) = (a.memory.read_internal_byte(o).unwrap_or(0), b.memory.read_internal_byte(o).unwrap_or(0));
        if x != y && diffs.len() < 6 {
            diffs.push(format!("imem{o:#x}:{x}/{y}"));
        }
    }
    format!("AT {} | RESTORED {} | A {} | B {} | DA {} | DB {} | DIFF {}", at_a, at_b, ta.join(";"), tb.join(";"), digest(&a), digest(&b), if diffs.is_empty() { "-".to_string() } else { diffs.join(",") })
}

/// snapsave <imr0> <timer_en> <mti> <sti> <mainhex> <handlerhex> <k> <path> <events>: run k steps, save a bundle at <path>, print the state
pub fn snapsave(w: &[&str]) -> String {
    let imr0 = w[0].parse::<u8>().unwrap();
    let ten = w[1] != "0";
    let mti = w[2].parse::<i32>().unwrap();
    let sti = w[3].parse::<i32>().unwrap();
    let main = hex(w[4]);
    let handler = hex(w[5]);
    let k = w[6].parse::<usize>().unwrap();
    let path = std::path::PathBuf::from(w[7]);
    let mut events: Vec<(usize, String)> = vec![];
    if w.len() > 8 && w[8] != "-" {
        for t in w[8].split(',') {
            let mut it = t.split(':');
            let kk = it.next().unwrap().parse::<usize>().unwrap();
            events.push((kk, it.next().unwrap().to_string()));
        }
    }
    let mut a = mk(imr0, ten, mti, sti, &main, &handler);
    let mut pre = vec![];
    run_steps(&mut a, &events, 0, k, &mut pre);
    match a.save_snapshot(&path) {
        Ok(()) => format!("SAVED {}", obs(&a)),
        Err(e) => format!("SNAPERR {}", format!("{e:?}").replace(' ', "_").chars().take(80).collect::<String>()),
    }
}

/// snapload <path> <mainhex> <handlerhex>: load a bundle (written by either implementation) into a fresh CoreRuntime, print the state
pub fn snapload(w: &[&str]) -> String {
    let path = std::path::PathBuf::from(w[0]);
    let main = hex(w[1]);
    let handler = hex(w[2]);
    let mut b = mk(0, false, 0, 0, &main, &handler);
    let res = b.load_snapshot(&path);
    let _ = std::fs::remove_file(&path);
    match res {
        Ok(()) => format!("LOADED {}", obs(&b)),
        Err(e) => format!("SNAPERR {}", format!("{e:?}").replace(' ', "_").chars().take(80).collect::<String>()),
    }
}
