use crate::num;
use sc62015_core::memory::{MemoryImage, MemoryOverlay};
use std::collections::HashMap;

fn rom_byte(i: u64, off: u64) -> u8 {
    ((i * 37 + off * 11 + 5) % 256) as u8
}

/// mem_rs <cfg> ops...   (l:<addr>:<bits> | s:<addr>:<bits>:<value>)
pub fn run(w: &[&str]) -> String {
    let mut cfg: HashMap<&str, &str> = HashMap::new();
    for f in w[0].split(';') {
        if let Some((k, v)) = f.split_once('=') {
            cfg.insert(k, v);
        }
    }
    let mut mem = MemoryImage::new();
    if cfg.get("absent").copied() == Some("1") {
        mem.set_memory_card_slot_present(false);
    }
    mem.set_internal_ram_mirror(cfg.get("mirror").copied() == Some("1"));
    if let Some(r) = cfg.get("ro") {
        if !r.is_empty() {
            let v: Vec<(u32, u32)> = r
                .split('+')
                .map(|x| {
                    let (a, b) = x.split_once('-').unwrap();
                    (num(a) as u32, num(b) as u32)
                })
                .collect();
            mem.set_readonly_ranges(v);
        }
    }
    if let Some(o) = cfg.get("ov") {
        if !o.is_empty() {
            for t in o.split('+') {
                let f: Vec<u64> = t.split(':').map(num).collect();
                let (st, en, dl, ro, id) = (f[0], f[1], f[2], f[3] != 0, f[4]);
                let data: Vec<u8> = if ro { (0..dl).map(|x| rom_byte(id, x)).collect() } else { vec![0u8; dl as usize] };
                mem.add_overlay(MemoryOverlay {
                    start: st as u32,
                    end: en as u32,
                    name: format!("ov{:02}", id),
                    data: Some(data),
                    read_only: ro,
                    read_handler: None,
                    write_handler: None,
                    perfetto_thread: None,
                });
            }
        }
    }
    let mut out: Vec<String> = Vec::new();
    for op in &w[1..] {
        let q: Vec<&str> = op.split(':').collect();
        let addr = num(q[1]) as u32;
        let bits = num(q[2]) as u8;
        if q[0] == "l" {
            match mem.load(addr, bits) {
                Some(v) => out.push(v.to_string()),
                None => out.push("NONE".into()),
            }
        } else {
            mem.store(addr, bits, num(q[3]) as u32);
            out.push("0".into());
        }
    }
    out.join(",")
}
