//! exec1 <hexbytes> <addr> <regs> <mem> <fill> [n]: execute n (default 1) instructions on the Rust LLAMA core over a flat memory.
use std::collections::{BTreeSet, HashMap};

use sc62015_core::llama::eval::{LlamaBus, LlamaExecutor};
use sc62015_core::llama::opcodes::RegName;
use sc62015_core::llama::state::{LlamaState, PowerState};

pub struct FlatBus {
    pub mem: HashMap<u32, u8>,
    pub fill: u64,
    pub written: BTreeSet<u32>,
}

impl FlatBus {
    fn byte(&self, a: u32) -> u8 {
        match self.mem.get(&a) {
            Some(v) => *v,
            None => {
                if self.fill == 0 {
                    0
                } else {
                    ((a as u64 * 167 + self.fill * 13) % 256) as u8
                }
            }
        }
    }
}

impl LlamaBus for FlatBus {
    fn load(&mut self, addr: u32, bits: u8) -> u32 {
        let n = (bits as u32 + 7) / 8;
        let mut v = 0u32;
        for i in 0..n {
            v |= (self.byte(addr.wrapping_add(i)) as u32) << (8 * i);
        }
        v
    }
    fn store(&mut self, addr: u32, bits: u8, value: u32) {
        let n = (bits as u32 + 7) / 8;
        for i in 0..n {
            let a = addr.wrapping_add(i);
            self.mem.insert(a, ((value >> (8 * i)) & 0xFF) as u8);
            self.written.insert(a);
        }
    }
}

fn parse_kv(s: &str) -> Vec<(String, u64)> {
    if s == "-" || s.is_empty() {
        return vec![];
    }
    s.split(',')
        .map(|t| {
            let mut it = t.split('=');
            let k = it.next().unwrap().to_string();
            let v = it.next().unwrap().parse::<i64>().unwrap();
            (k, v as u64)
        })
        .collect()
}

fn reg_of(k: &str) -> Option<RegName> {
    Some(match k {
        "BA" => RegName::BA,
        "I" => RegName::I,
        "X" => RegName::X,
        "Y" => RegName::Y,
        "U" => RegName::U,
        "S" => RegName::S,
        "F" => RegName::F,
        _ => {
            if let Some(n) = k.strip_prefix("TEMP") {
                RegName::Temp(n.parse::<u8>().ok()?)
            } else {
                return None;
            }
        }
    })
}

fn setup(w: &[&str]) -> (u32, FlatBus, Vec<(String, u64)>) {
    let code: Vec<u8> = (0..w[0].len() / 2).map(|i| u8::from_str_radix(&w[0][2 * i..2 * i + 2], 16).unwrap()).collect();
    let addr = w[1].parse::<u32>().unwrap();
    let fill = if w.len() > 4 { w[4].parse::<u64>().unwrap() } else { 0 };
    let mut bus = FlatBus { mem: HashMap::new(), fill, written: BTreeSet::new() };
    for (k, v) in parse_kv(w[3]) {
        bus.mem.insert(k.parse::<i64>().unwrap() as u32, v as u8);
    }
    for (i, b) in code.iter().enumerate() {
        bus.mem.insert(addr + i as u32, *b);
    }
    (addr, bus, parse_kv(w[2]))
}

fn mk_state(regs: &[(String, u64)], pc: u32) -> LlamaState {
    let mut st = LlamaState::new();
    for (k, v) in regs {
        if let Some(r) = reg_of(k) {
            st.set_reg(r, *v as u32);
        }
    }
    st.set_pc(pc);
    st
}

fn steps(st: &mut LlamaState, bus: &mut FlatBus, n: usize, lens: &mut Vec<u8>) -> Result<(), String> {
    let mut ex = LlamaExecutor::new();
    for _ in 0..n {
        let pc = st.pc();
        let opcode = bus.load(pc, 8) as u8;
        match ex.execute(opcode, st, bus) {
            Ok(l) => lens.push(l),
            Err(e) => return Err(format!("ERR {}", e.replace(' ', "_"))),
        }
    }
    Ok(())
}

fn show(st: &LlamaState, bus: &FlatBus, lens: &[u8]) -> String {
    let g = |r: RegName| st.get_reg(r);
    let ws: Vec<String> = bus.written.iter().map(|a| format!("{}={}", a, bus.byte(*a))).collect();
    format!(
        "OK pc={} ba={} i={} x={} y={} u={} s={} f={} halted={} | w:{} | len:{}",
        st.pc(),
        g(RegName::BA),
        g(RegName::I),
        g(RegName::X),
        g(RegName::Y),
        g(RegName::U),
        g(RegName::S),
        g(RegName::F),
        (st.power_state() != PowerState::Running) as u8,
        ws.join(","),
        lens.iter().map(|l| l.to_string()).collect::<Vec<_>>().join(",")
    )
}

pub fn run(w: &[&str]) -> String {
    let (addr, mut bus, regs) = setup(w);
    let n = if w.len() > 5 { w[5].parse::<usize>().unwrap() } else { 1 };
    let mut st = mk_state(&regs, addr);
    let mut lens = Vec::new();
    if let Err(e) = steps(&mut st, &mut bus, n, &mut lens) {
        return e;
    }
    show(&st, &bus, &lens)
}

/// exec_split <case...> <n> <m>: n+m steps in one state vs n steps, architectural registers carried into a fresh state, m steps
pub fn run_split(w: &[&str]) -> String {
    let n = w[5].parse::<usize>().unwrap();
    let m = w[6].parse::<usize>().unwrap();
    let (addr, mut bus_a, regs) = setup(w);
    let mut st_a = mk_state(&regs, addr);
    let mut la = Vec::new();
    let ra = match steps(&mut st_a, &mut bus_a, n + m, &mut la) {
        Ok(()) => show(&st_a, &bus_a, &la),
        Err(e) => e,
    };
    let (_, mut bus_b, _) = setup(w);
    let mut st_b = mk_state(&regs, addr);
    let mut lb = Vec::new();
    let rb = match steps(&mut st_b, &mut bus_b, n, &mut lb) {
        Err(e) => e,
        Ok(()) => {
            let carry: Vec<(String, u64)> = ["BA", "I", "X", "Y", "U", "S", "F"]
                .iter()
                .map(|k| (k.to_string(), st_b.get_reg(reg_of(k).unwrap()) as u64))
                .collect();
            let mut st_c = mk_state(&carry, st_b.pc());
            if !(w.len() > 7 && w[7] == "nh") {
                // "nh": the low-power flag is NOT carried (the property's state is registers, flags and memory)
                st_c.set_power_state(st_b.power_state());
            }
            match steps(&mut st_c, &mut bus_b, m, &mut lb) {
                Ok(()) => show(&st_c, &bus_b, &lb),
                Err(e) => e,
            }
        }
    };
    format!("{ra} || {rb}")
}
