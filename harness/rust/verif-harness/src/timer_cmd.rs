use crate::num;
use sc62015_core::memory::{MemoryImage, IMEM_ISR_OFFSET};
use sc62015_core::TimerContext;

/// timer_rs <en> <pm> <ps> <isr> ops...   (t:<c> | r:<c> | n:<nm>:<ns> | z)
pub fn run(w: &[&str]) -> String {
    let en = w[0] != "0";
    let pm = num(w[1]) as i32;
    let ps = num(w[2]) as i32;
    let isr = num(w[3]) as u8;
    let mut mem = MemoryImage::new();
    mem.write_internal_byte(IMEM_ISR_OFFSET, isr);
    let mut t = TimerContext::new(en, pm, ps);
    let mut out: Vec<String> = Vec::new();
    let mut last_cycle: u64 = 0;
    for op in &w[4..] {
        let parts: Vec<&str> = op.split(':').collect();
        if parts[0] == "t" || parts[0] == "r" {
            last_cycle = num(parts[1]);
        }
        let (fm, fs) = match parts[0] {
            "t" => t.tick_timers(&mut mem, num(parts[1]), None),
            "r" => {
                t.reset(num(parts[1]));
                (false, false)
            }
            "n" => {
                t.next_mti = num(parts[1]);
                t.next_sti = num(parts[2]);
                (false, false)
            }
            "z" => {
                // snapshot-restore point: the saved timer info applied to a context that was configured differently before
                let (ti, ii) = t.snapshot_info();
                let mut fresh = TimerContext::new(true, 5, 7);
                fresh.reset(3);
                fresh.apply_snapshot_info(&ti, &ii, last_cycle);
                t = fresh;
                (false, false)
            }
            _ => return "ERR bad-op".to_string(),
        };
        let isr_now = mem.read_internal_byte(IMEM_ISR_OFFSET).unwrap_or(0);
        out.push(format!(
            "{},{},{},{},{}",
            fm as u8, fs as u8, t.next_mti, t.next_sti, isr_now
        ));
    }
    out.join(";")
}


/// timer_rs_kb <en> <pm> <ps> <isr> ops...  (t:<c> | a | r:<c> | n:<nm>:<ns>): the ticks go through
/// TimerContext::tick_timers_with_keyboard (what CoreRuntime::step calls) with a keyboard scan that reports one new key
/// event on every main-timer firing; "a" is the firmware acknowledging (clearing) the status register
pub fn run_kb(w: &[&str]) -> String {
    let en = w[0] != "0";
    let pm = num(w[1]) as i32;
    let ps = num(w[2]) as i32;
    let isr = num(w[3]) as u8;
    let mut mem = MemoryImage::new();
    mem.write_internal_byte(IMEM_ISR_OFFSET, isr);
    let mut t = TimerContext::new(en, pm, ps);
    t.set_keyboard_irq_enabled(true);
    let mut out: Vec<String> = Vec::new();
    for op in &w[4..] {
        let parts: Vec<&str> = op.split(':').collect();
        let (fm, fs) = match parts[0] {
            "t" => {
                let (m, s, _n, _k) = t.tick_timers_with_keyboard(&mut mem, num(parts[1]), |_mem| (1usize, true, None), None, None);
                (m, s)
            }
            "a" => {
                mem.write_internal_byte(IMEM_ISR_OFFSET, 0);
                (false, false)
            }
            "r" => {
                t.reset(num(parts[1]));
                (false, false)
            }
            "n" => {
                t.next_mti = num(parts[1]);
                t.next_sti = num(parts[2]);
                (false, false)
            }
            _ => return "ERR bad-op".to_string(),
        };
        let isr_now = mem.read_internal_byte(IMEM_ISR_OFFSET).unwrap_or(0);
        out.push(format!("{},{},{},{},{}", fm as u8, fs as u8, t.next_mti, t.next_sti, isr_now));
    }
    out.join(";")
}
