use crate::num;
use sc62015_core::keyboard::KeyboardMatrix;
use sc62015_core::memory::{MemoryImage, IMEM_ISR_OFFSET};

/// kbd_rs <press> <release> <delay> <interval> <active_high> <repeat_enabled> <kb_irq> ops...
pub fn run(w: &[&str]) -> String {
    let mut kb = KeyboardMatrix::new();
    let mut mem = MemoryImage::new();
    // every other case starts from a matrix that was reset() once (what LlamaContractBus::new does): a reset of a freshly
    // constructed matrix must not change anything that follows
    if (w.len() + num(w[0]) as usize + num(w[1]) as usize) % 2 == 0 {
        kb.reset(&mut mem);
    }
    let ah = w[4] != "0";
    let rep = w[5] != "0";
    let irq = w[6] != "0";
    // thresholds other than press have no setter: configure through the snapshot API
    let mut snap = kb.snapshot_state();
    snap.press_threshold = (num(w[0]) as u8).max(1);
    snap.release_threshold = (num(w[1]) as u8).max(1);
    snap.repeat_delay = num(w[2]) as u8;
    snap.repeat_interval = num(w[3]) as u8;
    snap.columns_active_high = ah;
    kb.load_snapshot_state(&snap);
    kb.set_repeat_enabled(rep);
    let mut out: Vec<String> = Vec::new();
    for op in &w[7..] {
        let p: Vec<&str> = op.split(':').collect();
        let mut r: u64 = 0;
        match p[0] {
            "p" => kb.press_matrix_code(num(p[1]) as u8, &mut mem),
            "r" => kb.release_matrix_code(num(p[1]) as u8, &mut mem),
            "kol" => {
                kb.handle_write(0xF0, num(p[1]) as u8, &mut mem);
            }
            "koh" => {
                kb.handle_write(0xF1, num(p[1]) as u8, &mut mem);
            }
            "t" => {
                r = kb.scan_tick(&mut mem, true) as u64;
                kb.write_fifo_to_memory(&mut mem, irq);
            }
            "rd" => {
                r = kb.handle_read(0xF2, &mut mem).unwrap_or(0) as u64;
            }
            "inj" => {
                kb.inject_matrix_event(num(p[1]) as u8, p[2] != "0", &mut mem, irq);
            }
            "con" => kb.consume_pending_events(),
            _ => return "ERR bad-op".into(),
        }
        let s = kb.snapshot_state();
        let isr = mem.read_internal_byte(IMEM_ISR_OFFSET).unwrap_or(0);
        let mut v: Vec<String> = vec![r.to_string(), s.kil_latch.to_string(), s.irq_count.to_string(), isr.to_string()];
        for b in kb.fifo_snapshot() {
            v.push(b.to_string());
        }
        out.push(v.join(","));
    }
    out.join(";")
}
