use crate::num;
use sc62015_core::{current_cycle, emit_event, sleep_cycles, AsyncDriver, DriverEvent};
use std::cell::RefCell;
use std::rc::Rc;

#[derive(Clone, Copy)]
enum Act {
    Sleep(u64),
    Emit(u32),
}

type Log = Rc<RefCell<Vec<(u64, usize)>>>;

fn parse_script(spec: &str) -> Vec<Act> {
    if spec == "-" {
        Vec::new()
    } else {
        spec.split(',')
            .map(|a| {
                if let Some(n) = a.strip_prefix('s') {
                    Act::Sleep(num(n))
                } else {
                    Act::Emit(num(&a[1..]) as u32)
                }
            })
            .collect()
    }
}

fn spawn_tasks(driver: &mut AsyncDriver, specs: &[&str], log: &Log) {
    for (tid, spec) in specs.iter().enumerate() {
        let script = parse_script(spec);
        let lg = log.clone();
        driver.spawn(async move {
            lg.borrow_mut().push((current_cycle(), tid));
            for a in script {
                match a {
                    Act::Sleep(n) => {
                        sleep_cycles(n).await;
                        lg.borrow_mut().push((current_cycle(), tid));
                    }
                    Act::Emit(v) => emit_event(DriverEvent::User(v)),
                }
            }
        });
    }
}

fn run_budget(driver: &mut AsyncDriver, b: u64, res: &mut Vec<String>) {
    let r = driver.run_for(b);
    match r.event {
        DriverEvent::MaxCycles => res.push(format!("M:{}", r.cycles_executed)),
        DriverEvent::User(v) => res.push(format!("U{}:{}", v, r.cycles_executed)),
    }
}

fn render(res: &[String], driver: &AsyncDriver, log: &Log) -> String {
    let l: Vec<String> = log.borrow().iter().map(|(c, t)| format!("{c}:{t}")).collect();
    format!("{} | clock={} | {}", res.join(";"), driver.clock(), l.join(","))
}

/// sched <clock0> <b1,b2,...> <task>...   task = comma separated s<n> / e<v>, or - for an empty script
pub fn run(w: &[&str]) -> String {
    let clock0 = num(w[0]);
    let budgets: Vec<u64> = w[1].split(',').map(num).collect();
    let log: Log = Rc::new(RefCell::new(Vec::new()));
    let mut driver = AsyncDriver::with_clock(clock0);
    spawn_tasks(&mut driver, &w[2..], &log);
    let mut res: Vec<String> = Vec::new();
    for b in budgets {
        run_budget(&mut driver, b, &mut res);
    }
    render(&res, &driver, &log)
}

/// sched2 <order> <sched words of driver A> / <sched words of driver B>: two drivers alive on the same thread (they share the
/// thread-local cycle / wake / event channel); order 0: A constructed and spawned, then B; order 1: both constructed, then both
/// spawned; order 2: B constructed first.  The budgets are then issued alternately (A first).  Answer: A's answer || B's answer,
/// each in the format of `sched` - a driver must behave exactly as it does alone.
pub fn run2(w: &[&str]) -> String {
    let order = num(w[0]);
    let cut = w.iter().position(|x| *x == "/").unwrap();
    let (wa, wb) = (&w[1..cut], &w[cut + 1..]);
    let ba: Vec<u64> = wa[1].split(',').map(num).collect();
    let bb: Vec<u64> = wb[1].split(',').map(num).collect();
    let la: Log = Rc::new(RefCell::new(Vec::new()));
    let lb: Log = Rc::new(RefCell::new(Vec::new()));
    let (mut da, mut db);
    match order {
        0 => {
            da = AsyncDriver::with_clock(num(wa[0]));
            spawn_tasks(&mut da, &wa[2..], &la);
            db = AsyncDriver::with_clock(num(wb[0]));
            spawn_tasks(&mut db, &wb[2..], &lb);
        }
        1 => {
            da = AsyncDriver::with_clock(num(wa[0]));
            db = AsyncDriver::with_clock(num(wb[0]));
            spawn_tasks(&mut da, &wa[2..], &la);
            spawn_tasks(&mut db, &wb[2..], &lb);
        }
        _ => {
            db = AsyncDriver::with_clock(num(wb[0]));
            da = AsyncDriver::with_clock(num(wa[0]));
            spawn_tasks(&mut db, &wb[2..], &lb);
            spawn_tasks(&mut da, &wa[2..], &la);
        }
    }
    let (mut ra, mut rb): (Vec<String>, Vec<String>) = (Vec::new(), Vec::new());
    for i in 0..ba.len().max(bb.len()) {
        if i < ba.len() {
            run_budget(&mut da, ba[i], &mut ra);
        }
        if i < bb.len() {
            run_budget(&mut db, bb[i], &mut rb);
        }
    }
    format!("{} || {}", render(&ra, &da, &la), render(&rb, &db, &lb))
}

fn rt_digest(rt: &sc62015_core::CoreRuntime) -> String {
    let regs = sc62015_core::collect_registers(&rt.state);
    let mut keys: Vec<&String> = regs.keys().collect();
    keys.sort();
    let mut acc: u64 = 0;
    for b in rt.memory.external_slice().iter().take(0x2000) {
        acc = (acc * 31 + *b as u64 + 7) % 4294967291;
    }
    let mut iacc: u64 = 0;
    for off in 0..256u32 {
        iacc = (iacc * 31 + rt.memory.read_internal_byte_silent(off).unwrap_or(0) as u64 + 7) % 4294967291;
    }
    let r: Vec<String> = keys.iter().map(|k| format!("{}={}", k, regs[*k])).collect();
    format!(
        "ic={} cyc={} ps={:?} {} ext={} imem={}",
        rt.instruction_count(),
        rt.cycle_count(),
        rt.state.power_state(),
        r.join(","),
        acc,
        iacc
    )
}

fn mk_runtime(program: &[u8], timers: (bool, i32, i32)) -> sc62015_core::CoreRuntime {
    use sc62015_core::llama::opcodes::RegName;
    let mut rt = sc62015_core::CoreRuntime::new();
    rt.load_rom(program, 0);
    rt.state.set_reg(RegName::PC, 0);
    rt.state.set_reg(RegName::S, 0x1800);
    rt.state.set_reg(RegName::U, 0x1400);
    *rt.timer = sc62015_core::TimerContext::new(timers.0, timers.1, timers.2);
    rt
}

/// asynccpu <programhex> <n> <slice> <timer_en> <mti> <sti>: AsyncRuntimeRunner vs CoreRuntime::step(n) vs step(1)^n
pub fn run_cpu(w: &[&str]) -> String {
    let program: Vec<u8> = (0..w[0].len() / 2).map(|i| u8::from_str_radix(&w[0][2 * i..2 * i + 2], 16).unwrap()).collect();
    let n = num(w[1]) as usize;
    let slice = num(w[2]);
    let timers = (w[3] != "0", num(w[4]) as i32, num(w[5]) as i32);
    let mut sync_rt = mk_runtime(&program, timers);
    let sync_res = sync_rt.step(n).is_ok();
    let mut split_rt = mk_runtime(&program, timers);
    let mut split_ok = true;
    for _ in 0..n {
        if split_rt.step(1).is_err() {
            split_ok = false;
            break;
        }
    }
    let async_rc = Rc::new(RefCell::new(mk_runtime(&program, timers)));
    let mut runner = sc62015_core::AsyncRuntimeRunner::new(async_rc.clone()).with_slice_cycles(slice);
    let async_res = runner.run_instructions(n).is_ok();
    let a = rt_digest(&async_rc.borrow());
    let s = rt_digest(&sync_rt);
    let p = rt_digest(&split_rt);
    format!("sync_ok={} split_ok={} async_ok={} | SYNC {} | SPLIT {} | ASYNC {}", sync_res as u8, split_ok as u8, async_res as u8, s, p, a)
}
