use crate::num;
use sc62015_core::llama::opcodes::RegName;
use sc62015_core::llama::state::LlamaState;
use sc62015_core::{apply_registers, collect_registers, pack_registers, unpack_registers};

fn reg(s: &str) -> Option<RegName> {
    Some(match s {
        "A" => RegName::A,
        "B" => RegName::B,
        "BA" => RegName::BA,
        "IL" => RegName::IL,
        "IH" => RegName::IH,
        "I" => RegName::I,
        "X" => RegName::X,
        "Y" => RegName::Y,
        "U" => RegName::U,
        "S" => RegName::S,
        "PC" => RegName::PC,
        "F" => RegName::F,
        "FC" => RegName::FC,
        "FZ" => RegName::FZ,
        _ => {
            if let Some(n) = s.strip_prefix("TEMP") {
                RegName::Temp(n.parse::<u8>().ok()?)
            } else {
                return None;
            }
        }
    })
}

const ALL: [&str; 14] = ["A", "B", "BA", "IL", "IH", "I", "X", "Y", "U", "S", "PC", "F", "FC", "FZ"];

fn obs_all(st: &LlamaState) -> String {
    let mut v: Vec<String> = ALL.iter().map(|n| st.get_reg(reg(n).unwrap()).to_string()).collect();
    for i in 0..14u8 {
        v.push(st.get_reg(RegName::Temp(i)).to_string());
    }
    v.join(",")
}

/// regs_rs ops...  (s:<REG>:<v> | g:<REG> | snap | blob)
pub fn run(w: &[&str]) -> String {
    let mut st = LlamaState::new();
    let mut out: Vec<String> = Vec::new();
    for op in w {
        let p: Vec<&str> = op.split(':').collect();
        match p[0] {
            "s" => {
                let r = match reg(p[1]) {
                    Some(r) => r,
                    None => return "ERR bad-reg".into(),
                };
                st.set_reg(r, num(p[2]) as u32);
                out.push(st.get_reg(r).to_string());
            }
            "g" => {
                let r = match reg(p[1]) {
                    Some(r) => r,
                    None => return "ERR bad-reg".into(),
                };
                out.push(st.get_reg(r).to_string());
            }
            "snap" => {
                let regs = collect_registers(&st);
                let mut fresh = LlamaState::new();
                apply_registers(&mut fresh, &regs);
                st = fresh;
                out.push(obs_all(&st));
            }
            "blob" => {
                let regs = collect_registers(&st);
                let blob = pack_registers(&regs);
                let mut back = match unpack_registers(&blob) {
                    Ok(m) => m,
                    Err(_) => return "ERR unpack".into(),
                };
                for (k, v) in regs.iter() {
                    if k.starts_with("TEMP") {
                        back.insert(k.clone(), *v);
                    }
                }
                let mut fresh = LlamaState::new();
                apply_registers(&mut fresh, &back);
                st = fresh;
                out.push(obs_all(&st));
            }
            _ => return "ERR bad-op".into(),
        }
    }
    out.join(";")
}
