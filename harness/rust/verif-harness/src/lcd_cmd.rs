use crate::num;
use sc62015_core::lcd::LcdController;

const MODP: u64 = 4294967291;

fn digest<I: Iterator<Item = u64>>(it: I) -> u64 {
    let mut acc: u64 = 0;
    for b in it {
        acc = (acc * 31 + b + 7) % MODP;
    }
    acc
}

/// lcd_rs ops...  (w:<addr>:<v> | r:<addr> | st | px)
pub fn run(w: &[&str]) -> String {
    let mut lcd = LcdController::new();
    if w.len() % 2 == 1 {
        // every other case starts from a controller that was reset() once: a reset of a fresh controller changes nothing
        lcd.reset();
    }
    let mut out: Vec<String> = Vec::new();
    for op in w {
        let p: Vec<&str> = op.split(':').collect();
        match p[0] {
            "w" => {
                lcd.write(num(p[1]) as u32, num(p[2]) as u8);
                out.push(String::new());
            }
            "r" => match lcd.read(num(p[1]) as u32) {
                Some(v) => out.push(v.to_string()),
                None => out.push("256".to_string()),
            },
            "st" => {
                let (meta, payload) = lcd.export_snapshot();
                let mut vals: Vec<String> = Vec::new();
                let chips = meta.get("chips").and_then(|c| c.as_array()).cloned().unwrap_or_default();
                for (i, c) in chips.iter().enumerate() {
                    let on = c.get("on").and_then(|v| v.as_bool()).unwrap_or(false) as u8;
                    let sl = c.get("start_line").and_then(|v| v.as_u64()).unwrap_or(999);
                    let pg = c.get("page").and_then(|v| v.as_u64()).unwrap_or(999);
                    let y = c.get("y_address").and_then(|v| v.as_u64()).unwrap_or(999);
                    let d = digest(payload[i * 512..(i + 1) * 512].iter().map(|b| *b as u64));
                    vals.push(format!("{on},{sl},{pg},{y},{d}"));
                }
                out.push(vals.join(","));
            }
            "px" => {
                let buf = lcd.display_buffer();
                out.push(digest(buf.iter().flat_map(|r| r.iter().map(|b| *b as u64))).to_string());
            }
            _ => return "ERR bad-op".into(),
        }
    }
    out.join(";")
}
