//! Minimal stored-only ZIP reader/writer exposing the handful of names
//! `sc62015-core/src/snapshot.rs` uses. Not a general ZIP implementation.
use std::io::{self, Read, Seek, SeekFrom, Write};

#[derive(Clone, Copy, Debug, PartialEq, Eq)]
pub enum CompressionMethod {
    Stored,
    Deflated,
}

pub mod result {
    use std::fmt;
    #[derive(Debug)]
    pub enum ZipError {
        Io(std::io::Error),
        InvalidArchive(&'static str),
        UnsupportedArchive(&'static str),
        FileNotFound,
    }
    impl fmt::Display for ZipError {
        fn fmt(&self, f: &mut fmt::Formatter<'_>) -> fmt::Result {
            match self {
                ZipError::Io(e) => write!(f, "io: {e}"),
                ZipError::InvalidArchive(s) => write!(f, "invalid Zip archive: {s}"),
                ZipError::UnsupportedArchive(s) => write!(f, "unsupported Zip archive: {s}"),
                ZipError::FileNotFound => write!(f, "specified file not found in archive"),
            }
        }
    }
    impl std::error::Error for ZipError {}
    impl From<std::io::Error> for ZipError {
        fn from(e: std::io::Error) -> Self {
            ZipError::Io(e)
        }
    }
    pub type ZipResult<T> = Result<T, ZipError>;
}
use result::{ZipError, ZipResult};

fn crc32(data: &[u8], mut crc: u32) -> u32 {
    crc = !crc;
    for &b in data {
        crc ^= b as u32;
        for _ in 0..8 {
            crc = if crc & 1 != 0 { (crc >> 1) ^ 0xEDB8_8320 } else { crc >> 1 };
        }
    }
    !crc
}

pub mod write {
    use super::*;
    #[derive(Clone, Copy, Debug)]
    pub struct FileOptions;
    impl Default for FileOptions {
        fn default() -> Self {
            FileOptions
        }
    }
    impl FileOptions {
        pub fn compression_method(self, _m: CompressionMethod) -> Self {
            self
        }
    }
    struct Entry {
        name: String,
        offset: u32,
        data: Vec<u8>,
    }
    pub struct ZipWriter<W: Write + Seek> {
        inner: W,
        done: Vec<(String, u32, u32, u32)>, // name, offset, crc, size
        cur: Option<Entry>,
        pos: u32,
    }
    impl<W: Write + Seek> ZipWriter<W> {
        pub fn new(inner: W) -> Self {
            ZipWriter { inner, done: Vec::new(), cur: None, pos: 0 }
        }
        fn flush_entry(&mut self) -> ZipResult<()> {
            if let Some(e) = self.cur.take() {
                let crc = crc32(&e.data, 0);
                let size = e.data.len() as u32;
                let mut h = Vec::new();
                h.extend_from_slice(&0x0403_4b50u32.to_le_bytes());
                h.extend_from_slice(&20u16.to_le_bytes());
                h.extend_from_slice(&0u16.to_le_bytes());
                h.extend_from_slice(&0u16.to_le_bytes()); // stored
                h.extend_from_slice(&0u16.to_le_bytes());
                h.extend_from_slice(&0x21u16.to_le_bytes());
                h.extend_from_slice(&crc.to_le_bytes());
                h.extend_from_slice(&size.to_le_bytes());
                h.extend_from_slice(&size.to_le_bytes());
                h.extend_from_slice(&(e.name.len() as u16).to_le_bytes());
                h.extend_from_slice(&0u16.to_le_bytes());
                h.extend_from_slice(e.name.as_bytes());
                self.inner.write_all(&h)?;
                self.inner.write_all(&e.data)?;
                self.pos += h.len() as u32 + size;
                self.done.push((e.name, e.offset, crc, size));
            }
            Ok(())
        }
        pub fn start_file<S: Into<String>>(&mut self, name: S, _o: FileOptions) -> ZipResult<()> {
            self.flush_entry()?;
            self.cur = Some(Entry { name: name.into(), offset: self.pos, data: Vec::new() });
            Ok(())
        }
        pub fn finish(&mut self) -> ZipResult<()> {
            self.flush_entry()?;
            let cd_start = self.pos;
            let mut cd = Vec::new();
            for (name, offset, crc, size) in &self.done {
                cd.extend_from_slice(&0x0201_4b50u32.to_le_bytes());
                cd.extend_from_slice(&20u16.to_le_bytes());
                cd.extend_from_slice(&20u16.to_le_bytes());
                cd.extend_from_slice(&0u16.to_le_bytes());
                cd.extend_from_slice(&0u16.to_le_bytes());
                cd.extend_from_slice(&0u16.to_le_bytes());
                cd.extend_from_slice(&0x21u16.to_le_bytes());
                cd.extend_from_slice(&crc.to_le_bytes());
                cd.extend_from_slice(&size.to_le_bytes());
                cd.extend_from_slice(&size.to_le_bytes());
                cd.extend_from_slice(&(name.len() as u16).to_le_bytes());
                cd.extend_from_slice(&[0u8; 8]);
                cd.extend_from_slice(&0u32.to_le_bytes());
                cd.extend_from_slice(&offset.to_le_bytes());
                cd.extend_from_slice(name.as_bytes());
            }
            self.inner.write_all(&cd)?;
            let mut e = Vec::new();
            e.extend_from_slice(&0x0605_4b50u32.to_le_bytes());
            e.extend_from_slice(&[0u8; 4]);
            e.extend_from_slice(&(self.done.len() as u16).to_le_bytes());
            e.extend_from_slice(&(self.done.len() as u16).to_le_bytes());
            e.extend_from_slice(&(cd.len() as u32).to_le_bytes());
            e.extend_from_slice(&cd_start.to_le_bytes());
            e.extend_from_slice(&0u16.to_le_bytes());
            self.inner.write_all(&e)?;
            self.inner.flush()?;
            Ok(())
        }
    }
    impl<W: Write + Seek> Write for ZipWriter<W> {
        fn write(&mut self, buf: &[u8]) -> io::Result<usize> {
            match self.cur.as_mut() {
                Some(e) => {
                    e.data.extend_from_slice(buf);
                    Ok(buf.len())
                }
                None => Err(io::Error::new(io::ErrorKind::Other, "no file started")),
            }
        }
        fn flush(&mut self) -> io::Result<()> {
            Ok(())
        }
    }
}

pub mod read {
    use super::*;
    pub struct ZipFile {
        data: io::Cursor<Vec<u8>>,
    }
    impl Read for ZipFile {
        fn read(&mut self, buf: &mut [u8]) -> io::Result<usize> {
            self.data.read(buf)
        }
    }
    pub struct ZipArchive<R: Read + Seek> {
        inner: R,
        entries: Vec<(String, u32, u32, u16)>, // name, local offset, size, method
    }
    fn u16at(b: &[u8], o: usize) -> u16 {
        u16::from_le_bytes([b[o], b[o + 1]])
    }
    fn u32at(b: &[u8], o: usize) -> u32 {
        u32::from_le_bytes([b[o], b[o + 1], b[o + 2], b[o + 3]])
    }
    impl<R: Read + Seek> ZipArchive<R> {
        pub fn new(mut inner: R) -> ZipResult<Self> {
            let mut all = Vec::new();
            inner.seek(SeekFrom::Start(0))?;
            inner.read_to_end(&mut all)?;
            if all.len() < 22 {
                return Err(ZipError::InvalidArchive("too short"));
            }
            let mut i = all.len() - 22;
            loop {
                if u32at(&all, i) == 0x0605_4b50 {
                    break;
                }
                if i == 0 {
                    return Err(ZipError::InvalidArchive("no end of central directory"));
                }
                i -= 1;
            }
            let n = u16at(&all, i + 10) as usize;
            let mut p = u32at(&all, i + 16) as usize;
            let mut entries = Vec::new();
            for _ in 0..n {
                if p + 46 > all.len() || u32at(&all, p) != 0x0201_4b50 {
                    return Err(ZipError::InvalidArchive("bad central directory"));
                }
                let method = u16at(&all, p + 10);
                let csize = u32at(&all, p + 20);
                let nlen = u16at(&all, p + 28) as usize;
                let xlen = u16at(&all, p + 30) as usize;
                let clen = u16at(&all, p + 32) as usize;
                let off = u32at(&all, p + 42);
                let name = String::from_utf8_lossy(&all[p + 46..p + 46 + nlen]).to_string();
                entries.push((name, off, csize, method));
                p += 46 + nlen + xlen + clen;
            }
            Ok(ZipArchive { inner, entries })
        }
        pub fn by_name(&mut self, name: &str) -> ZipResult<ZipFile> {
            let (off, size, method) = match self.entries.iter().find(|e| e.0 == name) {
                Some(e) => (e.1, e.2, e.3),
                None => return Err(ZipError::FileNotFound),
            };
            if method != 0 {
                return Err(ZipError::UnsupportedArchive("only stored entries are supported by the shim"));
            }
            let mut h = [0u8; 30];
            self.inner.seek(SeekFrom::Start(off as u64))?;
            self.inner.read_exact(&mut h)?;
            let nlen = u16at(&h, 26) as u64;
            let xlen = u16at(&h, 28) as u64;
            self.inner.seek(SeekFrom::Start(off as u64 + 30 + nlen + xlen))?;
            let mut data = vec![0u8; size as usize];
            self.inner.read_exact(&mut data)?;
            Ok(ZipFile { data: io::Cursor::new(data) })
        }
    }
}

pub use write::ZipWriter;
