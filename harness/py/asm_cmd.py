"""asm <hextext>            : assemble the (hex-encoded utf-8) source on a fresh Assembler
asm_seq <hextext> <hextext>.. : assemble the sources one after another on ONE Assembler object; answers joined by ' || '
Output:  OK segs=<addr>:<hex>,... syms=<NAME>:<value>,...   |   ERR <class>:<first line of message>"""
from binja_test_mocks import binja_api  # noqa: F401

from sc62015.pysc62015.sc_asm import Assembler


def _one(a, text):
    try:
        b = a.assemble(text)
    except Exception as e:  # noqa: BLE001
        msg = str(e).splitlines()[0][:120].replace(" ", "_")
        return f"ERR {type(e).__name__}:{msg}"
    segs = ",".join(f"{s.address}:{bytes(s.data).hex()}" for s in b.segments) or "-"
    syms = ",".join(f"{k}:{v}" for k, v in sorted(a.symbols.items())) or "-"
    return f"OK segs={segs} syms={syms}"


def asm(w):
    return _one(Assembler(), bytes.fromhex(w[0]).decode())


def asm_seq(w):
    a = Assembler()
    return " || ".join(_one(a, bytes.fromhex(t).decode()) for t in w)
