"""asm <hextext>            : assemble the (hex-encoded utf-8) source on a fresh Assembler
asm_seq <hextext> <hextext>.. : assemble the sources one after another on ONE Assembler object; answers joined by ' || '
Output:  OK segs=<addr>:<hex>,... syms=<NAME>:<value>,...   |   ERR <class>:<first line of message>"""
from binja_test_mocks import binja_api  # noqa: F401

from sc62015.pysc62015.sc_asm import Assembler


def _one(a, text):
    try:
        b = a.assemble(text)
    except Exception as e:  # noqa: BLE001
        msg = str(e).splitlines()[0][:120].replace(" ", "_")
        return f"ERR {type(e).__name__}:{msg}"
    segs = ",".join(f"{s.address}:{bytes(s.data).hex()}" for s in b.segments) or "-"
    syms = ",".join(f"{k}:{v}" for k, v in sorted(a.symbols.items())) or "-"
    return f"OK segs={segs} syms={syms}"


def asm(w):
    return _one(Assembler(), bytes.fromhex(w[0]).decode())


def asm_seq(w):
    a = Assembler()
    return " || ".join(_one(a, bytes.fromhex(t).decode()) for t in w)


# ---- C09: disassemble -> text -> assemble -> disassemble -------------------------------------------
from binja_test_mocks.tokens import TAddr, TInt, asm_str  # noqa: E402
from binja_test_mocks.mock_llil import MockLowLevelILFunction  # noqa: E402
from sc62015.arch import SC62015  # noqa: E402
from sc62015.pysc62015.instr import decode, OPCODES  # noqa: E402
from harness.py.il_cmd import il_text  # noqa: E402

ARCH = SC62015()


def asm_text(toks):
    """rendered tokens as assembler source: numbers as 0x literals (sign kept), everything else verbatim"""
    out = []
    for t in toks:
        s = str(t)
        if isinstance(t, TInt):
            out.append((s[0] + "0x" + s[1:]) if s[:1] in "+-" else "0x" + s)
        elif isinstance(t, TAddr):
            out.append("0x" + s)
        else:
            out.append(s)
    return "".join(out)


def _dis(bs, addr):
    ins = decode(bs, addr, OPCODES)
    if ins is None:
        return None
    il = MockLowLevelILFunction()
    try:
        ins.lift(il, addr)
        ilt = il_text(il.ils)
    except Exception as e:  # noqa: BLE001
        ilt = "LERR " + type(e).__name__
    return ins, asm_str(ins.render()), ilt


def reasm(w):
    """reasm <hex> <addr>: only for byte strings get_instruction_text accepts"""
    bs = bytes.fromhex(w[0])
    addr = int(w[1])
    try:
        acc = ARCH.get_instruction_text(bs, addr)
    except Exception as e:  # noqa: BLE001
        return f"NOTEXT {type(e).__name__}"
    if acc is None:
        return "NOTEXT"
    ins, text, ilt = _dis(bs, addr)
    src = asm_text(ins.render())
    a = Assembler()
    try:
        b = a.assemble(f".ORG {addr:#x}\n    {src}\n")
        out = bytes(b.segments[0].data) if len(b.segments) else b""
    except Exception as e:  # noqa: BLE001
        return f"ASMERR {type(e).__name__}:{str(e).splitlines()[0][:100].replace(' ', '_')} | text={text.replace(' ', '_')} | len={ins.length()}"
    try:
        d2 = _dis(out, addr)
    except Exception as e:  # noqa: BLE001
        d2 = None
    if d2 is None:
        return f"REDIS-FAIL bytes={out.hex()} | text={text.replace(' ', '_')}"
    ins2, text2, ilt2 = d2
    try:
        b3 = Assembler().assemble(f".ORG {addr:#x}\n    {asm_text(ins2.render())}\n")
        out3 = bytes(b3.segments[0].data) if len(b3.segments) else b""
    except Exception as e:  # noqa: BLE001
        out3 = None
    return (f"OK orig={bs[:ins.length()].hex()} new={out.hex()} same_text={int(text == text2)} same_il={int(ilt == ilt2)} "
            f"stable={int(out3 == out)} same_len={int(len(out) == ins.length())} consumed={int(ins2.length() == len(out))} "
            f"| text={text.replace(' ', '_')} | text2={text2.replace(' ', '_')}")
