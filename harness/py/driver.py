"""Python-side executor: drives the real Python implementation in /repo (in-process).
One case per stdin line, one answer line per case; same wire protocol as model_driver and
verif-harness.  Run with /venv/bin/python, PYTHONPATH=<repo>:/verif, FORCE_BINJA_MOCK=1."""
from __future__ import annotations

import importlib
import sys
import traceback

HANDLERS = {
    "timer_py": ("harness.py.timer_cmd", "run"),
    "timer_emu": ("harness.py.timer_cmd", "run_emu"),
    "timer_wait": ("harness.py.timer_cmd", "run_wait"),
    "regs_py": ("harness.py.regs_cmd", "run"),
    "dec": ("harness.py.dec_cmd", "run"),
    "rt": ("harness.py.dec_cmd", "run_rt"),
    "lcd_py": ("harness.py.lcd_cmd", "run"),
    "pxmap": ("harness.py.lcd_cmd", "pxmap"),
    "kbd_py": ("harness.py.kbd_cmd", "run"),
    "mem_py": ("harness.py.mem_cmd", "run"),
    "il": ("harness.py.il_cmd", "run"),
    "irq": ("harness.py.irq_cmd", "run"),
    "snap": ("harness.py.irq_cmd", "snap"),
    "snapload": ("harness.py.irq_cmd", "snapload"),
    "snapsave": ("harness.py.irq_cmd", "snapsave"),
    "asm": ("harness.py.asm_cmd", "asm"),
    "asm_seq": ("harness.py.asm_cmd", "asm_seq"),
    "reasm": ("harness.py.asm_cmd", "reasm"),
    "info": ("harness.py.static_cmd", "info"),
    "render": ("harness.py.static_cmd", "render"),
    "exec_py": ("harness.py.exec_cmd", "run"),
    "exec1": ("harness.py.exec_cmd", "run_nolog"),
    "exec_split": ("harness.py.exec_cmd", "run_split"),
    "exec1_by": ("harness.py.exec_cmd", "run_bystander"),
}


def num(s: str) -> int:
    return int(s, 16) if s.startswith("0x") else int(s)


def main() -> None:
    cache = {}
    out = sys.stdout
    for line in sys.stdin:
        w = line.split()
        if not w:
            out.write("ERR empty\n")
            continue
        h = HANDLERS.get(w[0])
        if h is None:
            out.write(f"ERR unknown-command {w[0]}\n")
            continue
        fn = cache.get(w[0])
        if fn is None:
            fn = getattr(importlib.import_module(h[0]), h[1])
            cache[w[0]] = fn
        try:
            ans = fn(w[1:])
        except Exception as e:  # noqa: BLE001
            ans = f"ERR unexpected:{type(e).__name__}"
            if "-v" in sys.argv:
                traceback.print_exc()
        out.write(ans + "\n")
    out.flush()


if __name__ == "__main__":
    main()
