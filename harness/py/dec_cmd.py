"""dec <hexbytes> [<fillerhex>] [<addr>] : the decoder and its four consumers on one byte string."""
from binja_test_mocks import binja_api  # noqa: F401
from binja_test_mocks.eval_llil import Memory
from binja_test_mocks.mock_llil import MockLowLevelILFunction

from sc62015.arch import SC62015
from sc62015.pysc62015.emulator import Emulator
from sc62015.pysc62015.instr import decode, encode, OPCODES
from sc62015.pysc62015.instr import opcodes as O
from sc62015.pysc62015.instr.opcodes import InvalidInstruction

ARCH = SC62015()


def off(o):
    return "-" if o is None else str(o.value)


def dump_op(op):
    t = type(op)
    if t is O.Imm8:
        return f"i8:{op.value}"
    if t is O.Imm16:
        return f"i16:{op.value}"
    if t is O.Imm20:
        return f"i20:{op.value & 0xFF}.{(op.value >> 8) & 0xFF}.{op.extra_hi}"
    if t is O.ImmOffset:
        return f"off{op.sign}:{op.value}"
    if t in (O.IMem8, O.IMem16, O.IMem20):
        return f"im{op.width()}:{op.value}"
    if t is O.Reg:
        return f"r:{op.reg}"
    if t in (O.RegB, O.RegIL, O.RegIMR, O.RegF, O.RegPC):
        return f"r:{op.reg}"
    if t is O.Reg3:
        return f"r3:{op.reg_raw}"
    if t is O.RegPair:
        return f"rp{op.size}:{op.reg_raw}"
    if t is O.EMemAddr:
        return f"ea{op.width()}:{op.value & 0xFF}.{(op.value >> 8) & 0xFF}.{op.extra_hi}"
    if t is O.EMemReg:
        return f"er{op.width}:{op.reg.reg_raw}:{off(op.offset)}"
    if t is O.EMemIMem:
        return f"ei{op._width}:{op.value}:{op.imem.value}:{off(op.offset)}"
    if t is O.RegIMemOffset:
        return f"rio{int(op.order.name == 'DEST_IMEM')}:{op.reg.reg_raw}:{op.imem.value}:{off(op.offset)}"
    if t is O.EMemIMemOffset:
        return f"eio{int(op.order.name == 'DEST_INT_MEM')}:{op.mode_imm.value}:{op.imem1.value}:{op.imem2.value}:{off(op.offset)}"
    return f"?{t.__name__}"


def kind(e):
    if isinstance(e, AssertionError):
        return "ASSERT"
    if isinstance(e, NotImplementedError):
        return "NOTIMPL"
    if isinstance(e, InvalidInstruction):
        return "INVALID"
    return "EXC:" + type(e).__name__


def run(w):
    bs = bytes.fromhex(w[0]) if w[0] != "-" else b""
    filler = bytes.fromhex(w[1]) if len(w) > 1 and w[1] != "-" else b""
    addr = int(w[2]) if len(w) > 2 else 0x1000
    out = []
    # raw decoder
    try:
        ins = decode(bs, addr, OPCODES)
        if ins is None:
            out.append("D=NONE")
        else:
            pre = "-" if ins._pre is None else str(ins._pre)
            ops = ",".join(dump_op(o) for o in ins._operands) or "-"
            try:
                enc = bytes(encode(ins, addr)).hex() or "-"
            except Exception as e:  # noqa: BLE001
                enc = "ERR:" + type(e).__name__
            out.append(f"D=OK {ins.length()} {pre} {ins.opcode} {ins.name().replace(' ', '_')} {ops} {enc}")
    except Exception as e:  # noqa: BLE001
        out.append("D=" + kind(e))
    # arch consumers
    try:
        info = ARCH.get_instruction_info(bs, addr)
        out.append("info=R" if info is None else f"info=A:{info.length}")
    except Exception as e:  # noqa: BLE001
        out.append("info=C:" + type(e).__name__)
    try:
        t = ARCH.get_instruction_text(bs, addr)
        if t is None:
            out.append("text=R")
        else:
            toks, ln = t
            mn = "".join(str(getattr(x, "text", x)) for x in toks[:1]).strip().replace(" ", "_")
            out.append(f"text=A:{ln}:{mn}")
    except Exception as e:  # noqa: BLE001
        out.append("text=C:" + type(e).__name__)
    try:
        il = MockLowLevelILFunction()
        ln = ARCH.get_instruction_low_level_il(bs, addr, il)
        out.append("llil=R" if ln is None else f"llil=A:{ln}")
    except Exception as e:  # noqa: BLE001
        out.append("llil=C:" + type(e).__name__)
    # emulator fetch: memory = bytes + filler, zero beyond
    mem = bs + filler

    def rd(a):
        o = a - addr
        return mem[o] if 0 <= o < len(mem) else 0

    def fetch(emu):
        try:
            ins = emu.decode_instruction(addr)
            nm = ins.name().replace(" ", "_")
            if nm.startswith("UNK_"):
                return f"FB:{int(nm[4:], 16)}"
            return f"F:{ins.length()}:{nm}"
        except Exception as e:  # noqa: BLE001
            return "C:" + type(e).__name__

    fresh = fetch(Emulator(Memory(rd, lambda a, v: None), reset_on_init=False))
    out.append("emu=" + fresh)
    # the same fetch on ONE emulator that lives as long as this harness process and has decoded every earlier case
    # (same addresses, other bytes): anything an Emulator remembers between decodes shows up as a difference
    _SHARED["mem"], _SHARED["addr"] = mem, addr
    if _SHARED["emu"] is None:
        _SHARED["emu"] = Emulator(Memory(_shared_rd, lambda a, v: None), reset_on_init=False)
    old = fetch(_SHARED["emu"])
    out.append("emuh=" + ("same" if old == fresh else old))
    return " ".join(out)


_SHARED = {"emu": None, "mem": b"", "addr": 0}


def _shared_rd(a):
    o = a - _SHARED["addr"]
    m = _SHARED["mem"]
    return m[o] if 0 <= o < len(m) else 0


def _il_repr(ins, addr):
    il = MockLowLevelILFunction()
    try:
        ins.lift(il, addr)
    except Exception as e:  # noqa: BLE001
        return "EXC:" + type(e).__name__
    return canon_il(repr(il.ils))


def canon_il(text):
    """Label objects print with their address: rename them L0, L1, ... by order of first appearance."""
    import re

    seen = {}

    def sub(m):
        return seen.setdefault(m.group(0), f"L{len(seen)}")

    return re.sub(r"<[\w\.]*LowLevelILLabel object at 0x[0-9a-f]+>", sub, text)


def run_rt(w):
    """rt <hex> <tailhex> <addr>: decode, encode, decode again (with a different tail), compare text/length/IL."""
    from binja_test_mocks.tokens import asm_str

    bs = bytes.fromhex(w[0]) if w[0] != "-" else b""
    tail = bytes.fromhex(w[1]) if len(w) > 1 and w[1] != "-" else b""
    addr = int(w[2]) if len(w) > 2 else 0x1000
    try:
        i1 = decode(bs, addr, OPCODES)
    except Exception as e:  # noqa: BLE001
        return "RT=" + kind(e)
    if i1 is None:
        return "RT=NONE"
    n = i1.length()
    try:
        enc = bytes(encode(i1, addr))
    except Exception as e:  # noqa: BLE001
        return f"RT=ENCERR:{type(e).__name__} {n}"
    same_bytes = int(enc == bs[:n])
    try:
        i2 = decode(enc + tail, addr, OPCODES)
    except Exception as e:  # noqa: BLE001
        return f"RT=OK {n} {enc.hex()} bytes={same_bytes} second={kind(e)}"
    if i2 is None:
        return f"RT=OK {n} {enc.hex()} bytes={same_bytes} second=NONE"
    t1 = asm_str(i1.render())
    t2 = asm_str(i2.render())
    il1 = _il_repr(i1, addr)
    il2 = _il_repr(i2, addr)
    guard = ARCH.get_instruction_text(bs, addr)
    return (f"RT=OK {n} {enc.hex()} bytes={same_bytes} second=OK len2={i2.length()} text={int(t1 == t2)} il={int(il1 == il2)} "
            f"guard={'R' if guard is None else 'A'} lone_pre={int(i1.name().startswith('PRE') and i1._pre is None)}")
