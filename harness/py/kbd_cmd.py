from pce500.keyboard_handler import PCE500KeyboardHandler, KOL, KOH, KIL
from pce500.keyboard_matrix import KEY_LOCATIONS

NAME_OF = {(loc.column << 3) | loc.row: name for name, loc in KEY_LOCATIONS.items()}


def run(w):
    pt, rt, dl, iv, ah = int(w[0]), int(w[1]), int(w[2]), int(w[3]), w[4] != "0"
    h = PCE500KeyboardHandler(None, columns_active_high=ah)
    m = h._matrix
    m.press_threshold = max(1, pt)
    m.release_threshold = max(1, rt)
    m.repeat_delay = max(0, dl)
    m.repeat_interval = max(0, iv)
    out = []
    for op in w[7:]:
        p = op.split(":")
        r = 0
        if p[0] == "p":
            nm = NAME_OF.get(int(p[1]))
            if nm is not None:
                h.press_key(nm)
        elif p[0] == "r":
            nm = NAME_OF.get(int(p[1]))
            if nm is not None:
                h.release_key(nm)
        elif p[0] == "kol":
            h.handle_register_write(KOL, int(p[1]))
        elif p[0] == "koh":
            h.handle_register_write(KOH, int(p[1]))
        elif p[0] == "t":
            r = len(h.scan_tick())
        elif p[0] == "rd":
            r = h.handle_register_read(KIL)
        elif p[0] == "inj":
            nm = NAME_OF.get(int(p[1]))
            if nm is not None:
                m.inject_event(nm, release=p[2] != "0")
        elif p[0] == "con":
            h.consume_pending_events()
        else:
            return "ERR bad-op"
        out.append(",".join(str(x) for x in [r, m._kil_latch, m.irq_count, 0] + list(m.fifo_snapshot())))
    return ";".join(out)
