from sc62015.pysc62015.emulator import Registers, RegisterName, NUM_TEMP_REGISTERS
from sc62015.pysc62015.stepper import CPURegistersSnapshot
from pce500.emulator import _pack_register_bytes, _unpack_register_bytes

ALL = ["A", "B", "BA", "IL", "IH", "I", "X", "Y", "U", "S", "PC", "F", "FC", "FZ"] + [f"TEMP{i}" for i in range(14)]


def obs_all(regs):
    return ",".join(str(regs.get(RegisterName[n])) for n in ALL)


def run(w):
    regs = Registers()
    out = []
    for k, op in enumerate(w):
        p = op.split(":")
        if p[0] == "s":
            r = RegisterName[p[1]]
            if p[1] in ("FC", "FZ") and k % 2:
                # the other public write path of the flags (used by the emulator's flag callbacks): by flag name
                regs.set_flag(p[1][1], int(p[2]))
            else:
                regs.set(r, int(p[2]))
            out.append(str(regs.get(r)))
        elif p[0] == "g":
            out.append(str(regs.get(RegisterName[p[1]])))
        elif p[0] == "snap":
            snap = CPURegistersSnapshot.from_registers(regs)
            fresh = Registers()
            snap.apply_to(fresh)
            regs = fresh
            out.append(obs_all(regs))
        elif p[0] == "blob":
            snap = CPURegistersSnapshot.from_registers(regs)
            blob = _pack_register_bytes(snap)
            vals = _unpack_register_bytes(blob)
            snap2 = CPURegistersSnapshot(pc=vals["pc"], ba=vals["ba"], i=vals["i"], x=vals["x"], y=vals["y"], u=vals["u"], s=vals["s"], f=vals["f"], temps=dict(snap.temps))
            fresh = Registers()
            snap2.apply_to(fresh)
            regs = fresh
            out.append(obs_all(regs))
        else:
            return "ERR bad-op"
    return ";".join(out)
