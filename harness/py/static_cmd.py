"""info <hex> <addr>   : branch metadata from SC62015.get_instruction_info
render <hex> <addr> : the rendered operands of the decoded instruction in a canonical form parsed from the token text."""
import re

from binja_test_mocks import binja_api  # noqa: F401
from binja_test_mocks.tokens import TAddr, TInt, TSep

from sc62015.arch import SC62015
from sc62015.pysc62015.instr import decode, OPCODES
from sc62015.pysc62015.instr.opcodes import IMEMRegisters

ARCH = SC62015()
BT = {"TrueBranch": "T", "FalseBranch": "F", "UnconditionalBranch": "U", "CallDestination": "C",
      "FunctionReturn": "R", "UnresolvedBranch": "X", "IndirectBranch": "I"}


def info(w):
    bs = bytes.fromhex(w[0])
    addr = int(w[1])
    try:
        inf = ARCH.get_instruction_info(bs, addr)
    except Exception as e:  # noqa: BLE001
        return f"ERR {type(e).__name__}"
    if inf is None:
        return "NONE"
    brs = ",".join(f"{BT.get(getattr(b.type, 'name', str(b.type)), '?' + str(b.type))}:{'-' if b.target is None else b.target}" for b in inf.branches)
    return f"len={inf.length} br={brs or '-'}"


def tok_text(toks):
    """token text with integers marked by '$' so a hex 'BA' is not mistaken for the register"""
    return "".join(("$" + str(t)) if isinstance(t, TInt) else ("@" + str(t)) if isinstance(t, TAddr) else str(t) for t in toks)


def _off(sign, hexs):
    v = int(hexs, 16)
    return "+0" if v == 0 else f"{sign}{v}"


def _imem(txt):
    """'(BP+12)' -> '(BP_N:18)'"""
    inner = txt[1:-1]
    if inner == "BP+PX":
        return "(BP_PX)"
    if inner == "BP+PY":
        return "(BP_PY)"
    for pfx, mode in (("BP+", "BP_N"), ("PX+", "PX_N"), ("PY+", "PY_N")):
        if inner.startswith(pfx):
            return f"({mode}:{int(inner[len(pfx) + 1:], 16)})"
    if re.fullmatch(r"\$[0-9A-F]{2}", inner):
        return f"(N:{int(inner[1:], 16)})"
    return f"(N:{int(IMEMRegisters[inner].value)})"


def canon_operand(txt):
    if txt.startswith("("):
        return _imem(txt)
    if txt.startswith("["):
        inner = txt[1:-1]
        if inner.startswith("@"):
            return f"[{int(inner[1:], 16)}]"
        if inner.startswith("("):
            close = inner.index(")")
            base = _imem(inner[: close + 1])
            rest = inner[close + 1:]
            off = "" if rest == "" else _off(rest[1], rest[2:])
            return f"[{base}{off}]"
        m = re.fullmatch(r"(--)?([A-Z]+)(\+\+)?(?:\$([+-])([0-9A-F]{2}))?", inner)
        if m:
            off = "" if m.group(4) is None else _off(m.group(4), m.group(5))
            return f"[{m.group(1) or ''}{m.group(2)}{m.group(3) or ''}{off}]"
        return f"[{int(inner, 16)}]"
    if re.fullmatch(r"\$[+-][0-9A-F]{2}", txt):
        return f"#{txt[1]}{int(txt[2:], 16)}"
    if re.fullmatch(r"\$[0-9A-F]+", txt):
        return f"#{int(txt[1:], 16)}"
    return txt


def render(w):
    bs = bytes.fromhex(w[0])
    addr = int(w[1])
    try:
        ins = decode(bs, addr, OPCODES)
    except Exception as e:  # noqa: BLE001
        return f"DERR {type(e).__name__}"
    if ins is None:
        return "DNONE"
    try:
        toks = ins.render()
    except Exception as e:  # noqa: BLE001
        return f"RERR {type(e).__name__}"
    # split operands at the ", " separators after the mnemonic
    ops, cur = [], []
    for t in toks[1:]:
        if isinstance(t, TSep) and str(t) == ", ":
            ops.append(cur)
            cur = []
        elif isinstance(t, TSep) and str(t).strip() == "":
            continue
        else:
            cur.append(t)
    if cur:
        ops.append(cur)
    return f"OK {str(toks[0]).replace(' ', '_')} " + (" ".join(canon_operand(tok_text(o)) for o in ops) or "-")
