"""irq <imr0> <timer_en> <mti> <sti> <mainhex> <handlerhex> <nsteps> <events>
Machine-level interrupt scenario on PCE500Emulator: ROM image with `main` at 0xC1000, `handler` at 0xC2000, interrupt
vector -> 0xC2000, S=0xB9000, IMR=imr0, timers as given; events: comma list of <step>:<kind> (onk = press ON key before that step).
One observation per step (state AFTER the step): pc,s,f,imr,isr,in_irq,irq_total,halted,frame(5 bytes below the S seen before the step)"""
from binja_test_mocks import binja_api  # noqa: F401

from pce500.emulator import PCE500Emulator
from sc62015.pysc62015.emulator import RegisterName as R

IMEM = 0x100000
MAIN, HANDLER, STACK = 0xC1000, 0xC2000, 0xB9000


def run(w):
    imr0, ten, mti, sti = int(w[0]), w[1] != "0", int(w[2]), int(w[3])
    main = bytes.fromhex(w[4]) if w[4] != "-" else b""
    handler = bytes.fromhex(w[5]) if w[5] != "-" else b""
    nsteps = int(w[6])
    events = {}
    if len(w) > 7 and w[7] != "-":
        for t in w[7].split(","):
            k, kind = t.split(":")
            events.setdefault(int(k), []).append(kind)
    emu = PCE500Emulator(save_lcd_on_exit=False, perfetto_trace=False) if "perfetto_trace" in PCE500Emulator.__init__.__code__.co_varnames else PCE500Emulator(save_lcd_on_exit=False)
    rom = bytearray(0x40000)
    rom[MAIN - 0xC0000:MAIN - 0xC0000 + len(main)] = main
    rom[HANDLER - 0xC0000:HANDLER - 0xC0000 + len(handler)] = handler
    rom[0x3FFFA:0x3FFFD] = HANDLER.to_bytes(3, "little")
    emu.load_rom(bytes(rom))
    emu.cpu.regs.set(R.PC, MAIN)
    emu.cpu.regs.set(R.S, STACK)
    emu.cpu.regs.set(R.U, 0xB8000)
    emu.memory.write_byte(IMEM + 0xFB, imr0)
    emu.memory.write_byte(IMEM + 0xFC, 0)
    emu._timer_enabled = ten
    emu._timer_mti_period = mti
    emu._timer_sti_period = sti
    emu._timer_next_mti = emu.cycle_count + mti
    emu._timer_next_sti = emu.cycle_count + sti
    out = []
    for k in range(nsteps):
        for kind in events.get(k, []):
            if kind == "onk":
                emu.press_key("KEY_ON")
        s_before = emu.cpu.regs.get(R.S)
        try:
            emu.step()
        except Exception as e:  # noqa: BLE001
            out.append(f"ERR:{type(e).__name__}")
            break
        g = emu.cpu.regs.get
        frame = ".".join(str(emu.memory.read_byte(s_before - 5 + j) & 0xFF) for j in range(5))
        out.append(f"{g(R.PC)},{g(R.S)},{g(R.F) & 3},{emu.memory.read_byte(IMEM + 0xFB) & 0xFF},{emu.memory.read_byte(IMEM + 0xFC) & 0xFF},"
                   f"{int(bool(emu._in_interrupt))},{int(emu.irq_counts.get('total', 0))},{int(bool(emu.cpu.state.halted))},{frame}")
    return ";".join(out)
