"""irq <imr0> <timer_en> <mti> <sti> <mainhex> <handlerhex> <nsteps> <events>
Machine-level interrupt scenario on PCE500Emulator: ROM image with `main` at 0xC1000, `handler` at 0xC2000, interrupt
vector -> 0xC2000, S=0xB9000, IMR=imr0, timers as given; events: comma list of <step>:<kind> (onk = press ON key before that step).
One observation per step (state AFTER the step): pc,s,f,imr,isr,in_irq,irq_total,halted,frame(5 bytes below the S seen before the step)"""
from binja_test_mocks import binja_api  # noqa: F401

from pce500.emulator import PCE500Emulator
from sc62015.pysc62015.emulator import RegisterName as R

IMEM = 0x100000
MAIN, HANDLER, STACK = 0xC1000, 0xC2000, 0xB9000


def run(w):
    imr0, ten, mti, sti = int(w[0]), w[1] != "0", int(w[2]), int(w[3])
    main = bytes.fromhex(w[4]) if w[4] != "-" else b""
    handler = bytes.fromhex(w[5]) if w[5] != "-" else b""
    nsteps = int(w[6])
    events = {}
    if len(w) > 7 and w[7] != "-":
        for t in w[7].split(","):
            k, kind = t.split(":")
            events.setdefault(int(k), []).append(kind)
    emu = PCE500Emulator(save_lcd_on_exit=False, perfetto_trace=False) if "perfetto_trace" in PCE500Emulator.__init__.__code__.co_varnames else PCE500Emulator(save_lcd_on_exit=False)
    rom = bytearray(0x40000)
    rom[MAIN - 0xC0000:MAIN - 0xC0000 + len(main)] = main
    rom[HANDLER - 0xC0000:HANDLER - 0xC0000 + len(handler)] = handler
    rom[0x3FFFA:0x3FFFD] = HANDLER.to_bytes(3, "little")
    rom[0x3FFFD:0x40000] = MAIN.to_bytes(3, "little")          # reset vector: the last bytes of the ROM window are not zero
    emu.load_rom(bytes(rom))
    emu.cpu.regs.set(R.PC, MAIN)
    emu.cpu.regs.set(R.S, STACK)
    emu.cpu.regs.set(R.U, 0xB8000)
    emu.memory.write_byte(IMEM + 0xFB, imr0)
    emu.memory.write_byte(IMEM + 0xFC, 0)
    emu._timer_enabled = ten
    emu._timer_mti_period = mti
    emu._timer_sti_period = sti
    emu._timer_next_mti = emu.cycle_count + mti
    emu._timer_next_sti = emu.cycle_count + sti
    out = []
    for k in range(nsteps):
        for kind in events.get(k, []):
            if kind == "onk":
                emu.press_key("KEY_ON")
        s_before = emu.cpu.regs.get(R.S)
        try:
            emu.step()
        except Exception as e:  # noqa: BLE001
            out.append(f"ERR:{type(e).__name__}")
            break
        g = emu.cpu.regs.get
        frame = ".".join(str(emu.memory.read_byte(s_before - 5 + j) & 0xFF) for j in range(5))
        out.append(f"{g(R.PC)},{g(R.S)},{g(R.F) & 3},{emu.memory.read_byte(IMEM + 0xFB) & 0xFF},{emu.memory.read_byte(IMEM + 0xFC) & 0xFF},"
                   f"{int(bool(emu._in_interrupt))},{int(emu.irq_counts.get('total', 0))},{int(bool(emu.cpu.state.halted))},{frame}")
    return ";".join(out)


# ---- C16: snapshot at step k, continue vs restore-and-continue -----------------------------------
import hashlib  # noqa: E402
import os  # noqa: E402
import tempfile  # noqa: E402


def _mk(imr0, ten, mti, sti, main, handler):
    emu = PCE500Emulator(save_lcd_on_exit=False)
    rom = bytearray(0x40000)
    rom[MAIN - 0xC0000:MAIN - 0xC0000 + len(main)] = main
    rom[HANDLER - 0xC0000:HANDLER - 0xC0000 + len(handler)] = handler
    rom[0x3FFFA:0x3FFFD] = HANDLER.to_bytes(3, "little")
    rom[0x3FFFD:0x40000] = MAIN.to_bytes(3, "little")          # reset vector: the last bytes of the ROM window are not zero
    emu.load_rom(bytes(rom))
    emu.cpu.regs.set(R.PC, MAIN)
    emu.cpu.regs.set(R.S, STACK)
    emu.cpu.regs.set(R.U, 0xB8000)
    emu.memory.write_byte(IMEM + 0xFB, imr0)
    emu.memory.write_byte(IMEM + 0xFC, 0)
    emu._timer_enabled = ten
    emu._timer_mti_period = mti
    emu._timer_sti_period = sti
    emu._timer_next_mti = emu.cycle_count + mti
    emu._timer_next_sti = emu.cycle_count + sti
    return emu


def _obs(emu):
    g = emu.cpu.regs.get
    kil = fifo = 0
    try:
        m = emu.keyboard._matrix
        kil, fifo = int(m.peek_kil()) & 0xFF, len(m.fifo_snapshot())
    except Exception:  # noqa: BLE001
        pass
    return (f"{g(R.PC)},{g(R.BA)},{g(R.I)},{g(R.S)},{g(R.F) & 3},{emu.memory.read_byte(IMEM + 0xFB) & 0xFF},{emu.memory.read_byte(IMEM + 0xFC) & 0xFF},"
            f"{int(bool(emu._in_interrupt))},{int(emu.irq_counts.get('total', 0))},{int(bool(emu.cpu.state.halted))},{kil},{fifo}")


def _digest(emu):
    h = hashlib.sha256()
    h.update(bytes(emu.memory.external_memory[0xB8000:0xC0000]))
    # what the bus shows at the edges of every window (ROM, RAM, card slot, vectors), read through the public path
    for a in (0xFFFFF, 0xFFFFE, 0xFFFFD, 0xFFFFC, 0xFFFFA, 0xC0000, 0xC0001, 0xC1000, 0xBFFFF, 0xB8000, 0x80000, 0x7FFFF, 0x4FFFF, 0x40000, 0x3FFFF, 0x00000):
        h.update(bytes([emu.memory.read_byte(a) & 0xFF]))
    h.update(bytes(emu.memory.get_internal_memory_bytes()))
    try:
        buf = emu.lcd.get_display_buffer()
        h.update(bytes(int(v) & 0xFF for row in buf for v in row))
        # the controller registers of both chips (on, start line, page, column) and the VRAM
        for chip in emu.lcd.chips:
            st = chip.state
            h.update(bytes([int(bool(st.on)), st.start_line & 0xFF, st.page & 0xFF, st.y_address & 0xFF]))
            h.update(bytes(int(b) & 0xFF for row in chip.vram for b in row))
    except Exception:  # noqa: BLE001
        pass
    return h.hexdigest()[:16]


def _run(emu, events, start, n, out):
    for k in range(start, start + n):
        for kind in events.get(k, []):
            if kind == "onk":
                emu.press_key("KEY_ON")
            elif kind.startswith("key"):
                emu.press_key(kind[3:])
            elif kind.startswith("rel"):
                emu.release_key(kind[3:])
        try:
            emu.step()
        except Exception as e:  # noqa: BLE001
            out.append(f"ERR:{type(e).__name__}")
            return
        out.append(_obs(emu))


def snap(w):
    """snap <imr0> <timer_en> <mti> <sti> <mainhex> <handlerhex> <k> <m> <events>"""
    imr0, ten, mti, sti = int(w[0]), w[1] != "0", int(w[2]), int(w[3])
    main = bytes.fromhex(w[4]) if w[4] != "-" else b""
    handler = bytes.fromhex(w[5]) if w[5] != "-" else b""
    k, m = int(w[6]), int(w[7])
    events = {}
    if len(w) > 8 and w[8] != "-":
        for t in w[8].split(","):
            kk, kind = t.split(":")
            events.setdefault(int(kk), []).append(kind)
    a = _mk(imr0, ten, mti, sti, main, handler)
    pre = []
    _run(a, events, 0, k, pre)
    d = tempfile.mkdtemp(prefix="snap", dir=os.environ.get("VERIF_TMP", None))
    path = os.path.join(d, "s.pcsnap")
    try:
        a.save_snapshot(path)
        b = _mk(0, False, 0, 0, main, handler)
        b.load_snapshot(path)
    except Exception as e:  # noqa: BLE001
        return f"SNAPERR {type(e).__name__}:{str(e)[:80].replace(' ', '_')}"
    finally:
        try:
            os.remove(path)
            os.rmdir(d)
        except OSError:
            pass
    at_a, at_b = _obs(a), _obs(b)
    ta, tb = [], []
    _run(a, events, k, m, ta)
    _run(b, events, k, m, tb)
    return f"AT {at_a} | RESTORED {at_b} | A {';'.join(ta)} | B {';'.join(tb)} | DA {_digest(a)} | DB {_digest(b)}"


def snapload(w):
    """snapload <path> <mainhex> <handlerhex>: load a bundle (written by either implementation) into a fresh PCE500Emulator, print the state"""
    main = bytes.fromhex(w[1]) if w[1] != "-" else b""
    handler = bytes.fromhex(w[2]) if w[2] != "-" else b""
    import contextlib
    import io
    b = _mk(0, False, 0, 0, main, handler)
    try:
        with contextlib.redirect_stdout(io.StringIO()):  # the loader prints a backend-mismatch notice
            b.load_snapshot(w[0])
    except Exception as e:  # noqa: BLE001
        return f"SNAPERR {type(e).__name__}:{str(e)[:80].replace(' ', '_')}"
    finally:
        try:
            os.remove(w[0])
        except OSError:
            pass
    return "LOADED " + _obs(b)


def snapsave(w):
    """snapsave <imr0> <timer_en> <mti> <sti> <mainhex> <handlerhex> <k> <path> <events>: run k steps, save a bundle at <path>
    (members re-stored uncompressed, same names and bytes, so that the offline zip shim of the Rust harness can read it)"""
    import zipfile
    imr0, ten, mti, sti = int(w[0]), w[1] != "0", int(w[2]), int(w[3])
    main = bytes.fromhex(w[4]) if w[4] != "-" else b""
    handler = bytes.fromhex(w[5]) if w[5] != "-" else b""
    k, path = int(w[6]), w[7]
    events = {}
    if len(w) > 8 and w[8] != "-":
        for t in w[8].split(","):
            kk, kind = t.split(":")
            events.setdefault(int(kk), []).append(kind)
    a = _mk(imr0, ten, mti, sti, main, handler)
    _run(a, events, 0, k, [])
    try:
        a.save_snapshot(path)
        with zipfile.ZipFile(path) as z:
            members = [(n, z.read(n)) for n in z.namelist()]
        with zipfile.ZipFile(path, "w", zipfile.ZIP_STORED) as z:
            for n, data in members:
                z.writestr(n, data)
    except Exception as e:  # noqa: BLE001
        return f"SNAPERR {type(e).__name__}:{str(e)[:80].replace(' ', '_')}"
    return "SAVED " + _obs(a)
