from pce500.memory import PCE500Memory
from pce500.memory_bus import MemoryOverlay


def rom_byte(i, off):
    return (i * 37 + off * 11 + 5) % 256


def parse_cfg(s):
    d = {}
    for f in s.split(";"):
        if "=" in f:
            k, v = f.split("=", 1)
            d[k] = v
    return d


def run(w):
    cfg = parse_cfg(w[0])
    mem = PCE500Memory()
    p, wr, ln = (cfg.get("card") or "1,1,65536").split(",")
    if int(ln) != 65536 or wr == "0":
        mem.load_memory_card(b"", int(ln), writable=wr != "0")
    mem.set_memory_card_present(p != "0")
    if cfg.get("ov"):
        descs = [[int(x) for x in t.split(":")] for t in cfg["ov"].split("+")]
        rom_window = [d for d in descs if d[0] == 0xC0000]
        for st, en, dl, ro, i in descs:
            data = bytearray(rom_byte(i, o) for o in range(dl)) if ro else bytearray(dl)
            name = f"ov{i:02d}"
            # go through the configuration entry points of PCE500Memory whenever the descriptor is one they can produce
            if ro and st == 0xC0000 and en == 0xFFFFF and len(rom_window) == 1 and len(descs) == 1:
                mem.load_rom(bytes(data))              # overlay "internal_rom" 0xC0000-0xFFFFF
            elif ro and dl == en - st + 1:
                mem.add_rom(st, bytes(data), name)
            elif not ro and dl == en - st + 1:
                mem.add_ram(st, dl, name)
            else:
                mem.add_overlay(MemoryOverlay(start=st, end=en, name=name, data=data, read_only=bool(ro)))
    out = []
    for op in w[1:]:
        q = op.split(":")
        nb = max(1, (int(q[2]) + 7) // 8)
        if q[0] == "l":
            out.append(str(mem.read_bytes(int(q[1]), nb)))
        else:
            mem.write_bytes(nb, int(q[1]), int(q[3]))
            out.append("0")
    return ",".join(out)
