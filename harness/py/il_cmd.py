"""il <hexbytes> <addr> : canonical text of the IL the Python lifter emits for the instruction decoded from the bytes."""
from binja_test_mocks import binja_api  # noqa: F401
from binja_test_mocks.mock_llil import (
    MockFlag, MockGoto, MockIfExpr, MockIntrinsic, MockLabel, MockLLIL, MockLowLevelILFunction, MockReg,
)

from sc62015.pysc62015.instr import decode, OPCODES


def il_text(ils):
    labels = {}

    def lab(l):
        return labels.setdefault(id(l), f"L{len(labels)}")

    def p(n):
        if isinstance(n, MockIfExpr):
            return f"(IF {p(n.cond)} {lab(n.t)} {lab(n.f)})"
        if isinstance(n, MockLabel):
            return f"(LABEL {lab(n.label)})"
        if isinstance(n, MockGoto):
            return f"(GOTO {lab(n.label)})"
        if isinstance(n, MockIntrinsic):
            return f"(INTRINSIC {n.name})"
        if isinstance(n, MockLLIL):
            return "(" + " ".join([n.op] + [p(x) for x in n.ops]) + ")"
        if isinstance(n, (MockReg, MockFlag)):
            return n.name
        if isinstance(n, bool):
            return str(int(n))
        if isinstance(n, int):
            return str(n)
        return f"?{type(n).__name__}"

    return " ".join(p(n) for n in ils)


def run(w):
    code = bytes.fromhex(w[0])
    addr = int(w[1])
    try:
        ins = decode(code, addr, OPCODES)
    except Exception as e:  # noqa: BLE001
        return f"DERR {type(e).__name__}"
    if ins is None:
        return "DNONE"
    il = MockLowLevelILFunction()
    try:
        ins.lift(il, addr)
    except Exception as e:  # noqa: BLE001
        return f"LERR {type(e).__name__}"
    return f"OK {ins.length()} " + il_text(il.ils)
