"""exec_py <hexbytes> <addr> <regs> <mem> : execute one instruction on the Python emulator over a flat dict memory.
regs: BA=..,I=..,X=..,Y=..,U=..,S=..,F=..   mem: a=v,a=v (decimal).  Output:
  OK pc ba i x y u s f halted | w:addr=val,... (final contents of every address written, sorted) | r:addr,... (data reads in order) | wl:addr,...
"""
from binja_test_mocks import binja_api  # noqa: F401
from binja_test_mocks.eval_llil import Memory

from sc62015.pysc62015.emulator import Emulator, RegisterName


class LogEmu(Emulator):
    def __init__(self, memory):
        super().__init__(memory, reset_on_init=False)
        self.in_eval = False

    def evaluate(self, llil):
        self.in_eval = True
        return super().evaluate(llil)


def parse_kv(s):
    out = {}
    if s and s != "-":
        for t in s.split(","):
            k, v = t.split("=")
            out[k] = int(v)
    return out


def run(w, want_log=True):
    code = bytes.fromhex(w[0])
    addr = int(w[1])
    regs = parse_kv(w[2])
    mem = {int(k): v for k, v in parse_kv(w[3]).items()}
    fill = int(w[4]) if len(w) > 4 else 0
    for i, b in enumerate(code):
        mem[addr + i] = b

    def default(a):
        return (a * 167 + fill * 13) % 256 if fill else 0
    reads, writes = [], []
    holder = {}

    def rd(a):
        if holder.get("emu") is not None and holder["emu"].in_eval:
            reads.append(a)
        v = mem.get(a)
        return default(a) if v is None else v

    def wr(a, v):
        writes.append(a)
        mem[a] = v & 0xFF

    emu = LogEmu(Memory(rd, wr))
    holder["emu"] = emu
    for k, v in regs.items():
        emu.regs.set(RegisterName[k], v)
    try:
        emu.execute_instruction(addr)
    except Exception as e:  # noqa: BLE001
        return f"ERR {type(e).__name__}"
    g = emu.regs.get
    R = RegisterName
    out = f"OK pc={g(R.PC)} ba={g(R.BA)} i={g(R.I)} x={g(R.X)} y={g(R.Y)} u={g(R.U)} s={g(R.S)} f={g(R.F)} halted={int(emu.state.halted)}"
    ws = ",".join(f"{a}={mem[a]}" for a in sorted(set(writes)))
    out += f" | w:{ws}"
    if want_log:
        out += " | r:" + ",".join(str(a) for a in reads) + " | wl:" + ",".join(str(a) for a in writes)
    return out


def run_nolog(w):
    return run(w, want_log=False)
