"""exec_py <hexbytes> <addr> <regs> <mem> <fill> [n] : execute n (default 1) instructions on the Python emulator over a flat
memory.  regs: BA=..,I=..,X=..,Y=..,U=..,S=..,F=..[,TEMPk=..]   mem: a=v,a=v (decimal); unlisted bytes hold a fixed
pseudo-random fill (or 0).  Output:
  OK pc ba i x y u s f halted | w:addr=val,... (final contents of every address written) | r:addr,... | wl:addr,...
exec1      : the same without the access logs
exec_split <case...> <n> <m> : n+m steps in one emulator vs n steps, architectural state carried into a fresh emulator, m steps
"""
from binja_test_mocks import binja_api  # noqa: F401
from binja_test_mocks.eval_llil import Memory

from sc62015.pysc62015.emulator import Emulator, RegisterName

R = RegisterName
ARCH = ("PC", "BA", "I", "X", "Y", "U", "S", "F")


class LogEmu(Emulator):
    def __init__(self, memory):
        super().__init__(memory, reset_on_init=False)
        self.in_eval = False

    def evaluate(self, llil):
        self.in_eval = True
        return super().evaluate(llil)


def parse_kv(s):
    out = {}
    if s and s != "-":
        for t in s.split(","):
            k, v = t.split("=")
            out[k] = int(v)
    return out


class Machine:
    def __init__(self, mem, fill, regs):
        self.mem = mem
        self.fill = fill
        self.reads, self.writes = [], []
        self.emu = None
        emu = LogEmu(Memory(self.rd, self.wr))
        self.emu = emu
        for k, v in regs.items():
            emu.regs.set(RegisterName[k], v)

    def default(self, a):
        return (a * 167 + self.fill * 13) % 256 if self.fill else 0

    def rd(self, a):
        if self.emu is not None and self.emu.in_eval:
            self.reads.append(a)
        v = self.mem.get(a)
        return self.default(a) if v is None else v

    def wr(self, a, v):
        self.writes.append(a)
        self.mem[a] = v & 0xFF

    def steps(self, addr, n):
        pc = addr
        for _ in range(n):
            self.emu.in_eval = False
            self.emu.execute_instruction(pc)
            pc = self.emu.regs.get(R.PC)

    def arch(self):
        g = self.emu.regs.get
        return {k: g(RegisterName[k]) for k in ARCH}

    def show(self, want_log):
        g = self.emu.regs.get
        out = (f"OK pc={g(R.PC)} ba={g(R.BA)} i={g(R.I)} x={g(R.X)} y={g(R.Y)} u={g(R.U)} s={g(R.S)} f={g(R.F)} "
               f"halted={int(self.emu.state.halted)}")
        ws = ",".join(f"{a}={self.mem[a]}" for a in sorted(set(self.writes)))
        out += f" | w:{ws}"
        if want_log:
            out += " | r:" + ",".join(str(a) for a in self.reads) + " | wl:" + ",".join(str(a) for a in self.writes)
        return out


def setup(w):
    code = bytes.fromhex(w[0])
    addr = int(w[1])
    regs = parse_kv(w[2])
    mem = {int(k): v for k, v in parse_kv(w[3]).items()}
    fill = int(w[4]) if len(w) > 4 else 0
    for i, b in enumerate(code):
        mem[addr + i] = b
    return addr, regs, mem, fill


def run(w, want_log=True):
    addr, regs, mem, fill = setup(w)
    n = int(w[5]) if len(w) > 5 else 1
    m = Machine(mem, fill, regs)
    try:
        m.steps(addr, n)
    except Exception as e:  # noqa: BLE001
        return f"ERR {type(e).__name__}"
    return m.show(want_log)


def run_bystander(w):
    """exec1 with another emulator constructed AFTER the one under test and before it executes (an instance that has nothing
    to do with the run): process-wide registries must not make the result depend on it"""
    addr, regs, mem, fill = setup(w)
    n = int(w[5]) if len(w) > 5 else 1
    m = Machine(mem, fill, regs)
    other = Machine({0xFFFFD: 0xCD, 0xFFFFE: 0xAB, 0xFFFFF: 0x00, 0xFFFFA: 0x11, 0xFFFFB: 0x22, 0xFFFFC: 0x03}, 0, {"BA": 0x1234, "X": 0x2345})
    try:
        m.steps(addr, n)
    except Exception as e:  # noqa: BLE001
        return f"ERR {type(e).__name__}"
    res = m.show(False)
    g = other.emu.regs.get
    touched = bool(other.writes) or g(RegisterName.PC) != 0 or g(RegisterName.BA) != 0x1234 or g(RegisterName.X) != 0x2345 or other.emu.state.halted
    return res + (" | BYSTANDER-CHANGED" if touched else "")


def run_nolog(w):
    return run(w, want_log=False)


def run_split(w):
    addr, regs, mem, fill = setup(w)
    n, k = int(w[5]), int(w[6])
    a = Machine(dict(mem), fill, regs)
    try:
        a.steps(addr, n + k)
        ra = a.show(False)
    except Exception as e:  # noqa: BLE001
        ra = f"ERR {type(e).__name__}"
    b1 = Machine(dict(mem), fill, regs)
    try:
        b1.steps(addr, n)
        st = b1.arch()
        halted = b1.emu.state.halted
        pc = st.pop("PC")
        b2 = Machine(b1.mem, fill, st)
        if not (len(w) > 7 and w[7] == "nh"):
            # "nh": the low-power flag is NOT carried (the property's state is registers, flags and memory)
            b2.emu.state.halted = halted
        b2.writes = list(b1.writes)
        b2.steps(pc, k)
        rb = b2.show(False)
    except Exception as e:  # noqa: BLE001
        rb = f"ERR {type(e).__name__}"
    return f"{ra} || {rb}"
