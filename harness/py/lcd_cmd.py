from pce500.display.controller_wrapper import HD61202Controller

MOD = 4294967291


def digest(seq, acc=0):
    for b in seq:
        acc = (acc * 31 + int(b) + 7) % MOD
    return acc


def run(w):
    lcd = HD61202Controller()
    out = []
    for op in w:
        p = op.split(":")
        if p[0] == "w":
            lcd.write(int(p[1]), int(p[2]), cpu_pc=0)
            out.append("")
        elif p[0] == "r":
            v = lcd.read(int(p[1]))
            out.append("256" if v is None else str(int(v)))
        elif p[0] == "st":
            vals = []
            for chip in lcd.chips:
                st = chip.state
                vals += [int(bool(st.on)), st.start_line, st.page, st.y_address, digest(b for row in chip.vram for b in row)]
            out.append(",".join(str(x) for x in vals))
        elif p[0] == "px":
            buf = lcd.get_display_buffer()
            out.append(str(digest(int(x) for row in buf for x in row)))
        else:
            return "ERR bad-op"
    return ";".join(out)
