from pce500.display.controller_wrapper import HD61202Controller

MOD = 4294967291


def digest(seq, acc=0):
    for b in seq:
        acc = (acc * 31 + int(b) + 7) % MOD
    return acc


def run(w):
    lcd = HD61202Controller()
    if len(w) % 2 == 0:
        # every other case starts from a controller that was reset() once (what PCE500Emulator.reset does): resetting a freshly
        # constructed controller must not change anything that follows
        lcd.reset()
    out = []
    for op in w:
        p = op.split(":")
        if p[0] == "w":
            lcd.write(int(p[1]), int(p[2]), cpu_pc=0)
            out.append("")
        elif p[0] == "r":
            v = lcd.read(int(p[1]))
            out.append("256" if v is None else str(int(v)))
        elif p[0] == "st":
            vals = []
            for chip in lcd.chips:
                st = chip.state
                vals += [int(bool(st.on)), st.start_line, st.page, st.y_address, digest(b for row in chip.vram for b in row)]
            out.append(",".join(str(x) for x in vals))
        elif p[0] == "sn":
            # the same observation through the public snapshot API (HD61202Controller.get_snapshot)
            vals = []
            for chip in lcd.get_snapshot().chips:
                vals += [int(bool(chip.on)), chip.start_line, chip.page, chip.y_address, digest(b for row in chip.vram for b in row)]
            out.append(",".join(str(x) for x in vals))
        elif p[0] == "px":
            buf = lcd.get_display_buffer()
            out.append(str(digest(int(x) for row in buf for x in row)))
        else:
            return "ERR bad-op"
    return ";".join(out)


def pxmap(w):
    """pxmap: for every VRAM bit (chip, page, column, bit) of a blank display with both chips on, the display pixels that change
    when that bit alone is set: 'x.y' for exactly one pixel, '-' for none, '?n' for n > 1.  One line, 2*8*64*8 entries."""
    import numpy as np
    lcd = HD61202Controller()
    for ch in lcd.chips:
        ch.state.on = True
    blank = np.array(lcd.get_display_buffer()).copy()
    out = []
    for c, ch in enumerate(lcd.chips):
        for page in range(8):
            for col in range(64):
                for bit in range(8):
                    ch.vram[page][col] = 1 << bit
                    d = np.argwhere(np.array(lcd.get_display_buffer()) != blank)
                    ch.vram[page][col] = 0
                    out.append("-" if len(d) == 0 else (f"{d[0][1]}.{d[0][0]}" if len(d) == 1 else f"?{len(d)}"))
    h, wd = blank.shape
    return f"{wd}x{h} " + ",".join(out)
