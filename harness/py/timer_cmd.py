from pce500.scheduler import TimerScheduler, TimerSource


def run(w):
    en = w[0] != "0"
    pm, ps, isr = int(w[1]), int(w[2]), int(w[3])
    t = TimerScheduler(mti_period=pm, sti_period=ps, enabled=en)
    out = []
    for op in w[4:]:
        p = op.split(":")
        fm = fs = False
        if p[0] == "t":
            fired = list(t.advance(int(p[1])))
            fm = TimerSource.MTI in fired
            fs = TimerSource.STI in fired
            # ISR update as PCE500Emulator._tick_timers performs it for the fired sources
            if fm:
                isr |= 0x01
            if fs:
                isr |= 0x02
        elif p[0] == "r":
            t.reset(cycle_base=int(p[1]))
        elif p[0] == "n":
            t.next_mti = int(p[1])
            t.next_sti = int(p[2])
        else:
            return "ERR bad-op"
        out.append(f"{int(fm)},{int(fs)},{t.next_mti},{t.next_sti},{isr}")
    return ";".join(out)


_EMU = None


def _emu():
    global _EMU
    if _EMU is None:
        from pce500.emulator import PCE500Emulator

        _EMU = PCE500Emulator(save_lcd_on_exit=False)
    return _EMU


def run_emu(w):
    """Same stream through the real PCE500Emulator._tick_timers (ISR bits set by the emulator)."""
    from sc62015.pysc62015.constants import INTERNAL_MEMORY_START
    from sc62015.pysc62015.instr.opcodes import IMEMRegisters

    emu = _emu()
    en = w[0] != "0"
    pm, ps, isr = int(w[1]), int(w[2]), int(w[3])
    sch = emu._scheduler
    sch.enabled = en
    sch.mti_period = pm
    sch.sti_period = ps
    sch.reset(cycle_base=0)
    emu._irq_pending = False
    emu._key_irq_latched = False
    isr_addr = INTERNAL_MEMORY_START + IMEMRegisters.ISR
    emu.memory.write_byte(isr_addr, isr)
    out = []
    for op in w[4:]:
        p = op.split(":")
        fm = fs = False
        if p[0] == "t":
            before_m, before_s = sch.next_mti, sch.next_sti
            emu.cycle_count = int(p[1])
            emu._tick_timers()
            fm = sch.next_mti != before_m
            fs = sch.next_sti != before_s
        elif p[0] == "r":
            sch.reset(cycle_base=int(p[1]))
        elif p[0] == "n":
            sch.next_mti = int(p[1])
            sch.next_sti = int(p[2])
        else:
            return "ERR bad-op"
        cur = emu.memory.read_byte(isr_addr) & 0xFF
        out.append(f"{int(fm)},{int(fs)},{sch.next_mti},{sch.next_sti},{cur}")
    return ";".join(out)
