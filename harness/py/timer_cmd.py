from pce500.scheduler import TimerScheduler, TimerSource


def run(w):
    en = w[0] != "0"
    pm, ps, isr = int(w[1]), int(w[2]), int(w[3])
    t = TimerScheduler(mti_period=pm, sti_period=ps, enabled=en)
    out = []
    for op in w[4:]:
        p = op.split(":")
        fm = fs = False
        if p[0] == "t":
            fired = list(t.advance(int(p[1])))
            fm = TimerSource.MTI in fired
            fs = TimerSource.STI in fired
            # ISR update as PCE500Emulator._tick_timers performs it for the fired sources
            if fm:
                isr |= 0x01
            if fs:
                isr |= 0x02
        elif p[0] == "r":
            t.reset(cycle_base=int(p[1]))
        elif p[0] == "n":
            t.next_mti = int(p[1])
            t.next_sti = int(p[2])
        else:
            return "ERR bad-op"
        out.append(f"{int(fm)},{int(fs)},{t.next_mti},{t.next_sti},{isr}")
    return ";".join(out)


_EMU = None
_SAVED = None


def _emu():
    global _EMU
    if _EMU is None:
        from pce500.emulator import PCE500Emulator

        _EMU = PCE500Emulator(save_lcd_on_exit=False)
    return _EMU


def run_emu(w):
    """Same stream through the real PCE500Emulator._tick_timers (ISR bits set by the emulator)."""
    from sc62015.pysc62015.constants import INTERNAL_MEMORY_START
    from sc62015.pysc62015.instr.opcodes import IMEMRegisters

    emu = _emu()
    en = w[0] != "0"
    pm, ps, isr = int(w[1]), int(w[2]), int(w[3])
    sch = emu._scheduler
    sch.enabled = en
    sch.mti_period = pm
    sch.sti_period = ps
    sch.reset(cycle_base=0)
    emu._irq_pending = False
    emu._key_irq_latched = False
    isr_addr = INTERNAL_MEMORY_START + IMEMRegisters.ISR
    emu.memory.write_byte(isr_addr, isr)
    out = []
    for op in w[4:]:
        p = op.split(":")
        fm = fs = False
        if p[0] == "t":
            before_m, before_s = sch.next_mti, sch.next_sti
            emu.cycle_count = int(p[1])
            emu._tick_timers()
            fm = sch.next_mti != before_m
            fs = sch.next_sti != before_s
        elif p[0] == "r":
            sch.reset(cycle_base=int(p[1]))
        elif p[0] == "n":
            sch.next_mti = int(p[1])
            sch.next_sti = int(p[2])
        elif p[0] == "z":
            # snapshot-restore point through the public API: save, load into a freshly constructed machine, go on with that one
            import os
            import tempfile
            from pce500.emulator import PCE500Emulator
            import contextlib
            import io

            d = tempfile.mkdtemp(prefix="tsnap", dir=os.environ.get("VERIF_TMP", None))
            path = os.path.join(d, "t.pcsnap")
            try:
                with contextlib.redirect_stdout(io.StringIO()):
                    emu.save_snapshot(path)
                    fresh = PCE500Emulator(save_lcd_on_exit=False)
                    fresh.load_snapshot(path)
            except Exception as e:  # noqa: BLE001
                return f"ERR snapshot:{type(e).__name__}"
            finally:
                try:
                    os.remove(path)
                    os.rmdir(d)
                except OSError:
                    pass
            global _EMU
            _EMU = emu = fresh
            sch = emu._scheduler
        elif p[0] in ("S", "L"):
            # rewind through the public API: S saves a snapshot and goes on with the same machine; L loads the snapshot saved
            # by the last S back into that same machine (which has run on since)
            import os
            import tempfile
            import contextlib
            import io

            global _SAVED
            try:
                with contextlib.redirect_stdout(io.StringIO()):
                    if p[0] == "S":
                        d = tempfile.mkdtemp(prefix="tsnap", dir=os.environ.get("VERIF_TMP", None))
                        _SAVED = os.path.join(d, "t.pcsnap")
                        emu.save_snapshot(_SAVED)
                    else:
                        try:
                            emu.load_snapshot(_SAVED)
                        finally:
                            os.remove(_SAVED)
                            os.rmdir(os.path.dirname(_SAVED))
            except Exception as e:  # noqa: BLE001
                return f"ERR snapshot:{type(e).__name__}"
            sch = emu._scheduler
        else:
            return "ERR bad-op"
        cur = emu.memory.read_byte(isr_addr) & 0xFF
        out.append(f"{int(fm)},{int(fs)},{sch.next_mti},{sch.next_sti},{cur}")
    return ";".join(out)


def run_wait(w):
    """timer_wait <pm> <ps> <pre_nops> <I>: a machine whose main program is <pre_nops> NOPs, MV I,<I>, WAIT; the scheduler's
    advance() is observed (not replaced) while the WAIT instruction is stepped.  Answer:
    c0,c1,m0,s0,last-ticked-cycle|<cycles at which MTI fired>|<cycles at which STI fired>|next_mti,next_sti,isr"""
    from pce500.emulator import PCE500Emulator
    from sc62015.pysc62015.emulator import RegisterName as R

    pm, ps, pre, cnt = int(w[0]), int(w[1]), int(w[2]), int(w[3])
    IMEM, MAIN = 0x100000, 0xC1000
    emu = PCE500Emulator(save_lcd_on_exit=False)
    main = bytes([0x00] * pre + [0x0B, cnt & 0xFF, (cnt >> 8) & 0xFF, 0xEF] + [0x00] * 24)
    rom = bytearray(0x40000)
    rom[MAIN - 0xC0000:MAIN - 0xC0000 + len(main)] = main
    emu.load_rom(bytes(rom))
    emu.cpu.regs.set(R.PC, MAIN)
    emu.cpu.regs.set(R.S, 0xB9000)
    emu.memory.write_byte(IMEM + 0xFB, 0)
    emu.memory.write_byte(IMEM + 0xFC, 0)
    emu._timer_enabled = True
    emu._timer_mti_period = pm
    emu._timer_sti_period = ps
    emu._timer_next_mti = emu.cycle_count + pm
    emu._timer_next_sti = emu.cycle_count + ps
    sch = emu._scheduler
    log = []
    orig = sch.advance

    def spy(cycle):
        fired = tuple(orig(cycle))
        log.append((int(cycle), fired))
        return fired

    whole = len(w) > 4 and w[4] == "all"
    if whole:
        # observe the whole run: single-instruction steps before and after the WAIT as well (interrupts stay masked, so a
        # request remains pending throughout)
        sch.advance = spy
        c0, m0, s0 = emu.cycle_count, sch.next_mti, sch.next_sti
        try:
            for _ in range(pre + 2 + 16):
                emu.step()
        finally:
            del sch.advance
    else:
        for _ in range(pre + 1):
            emu.step()
        sch.advance = spy
        c0, m0, s0 = emu.cycle_count, sch.next_mti, sch.next_sti
        try:
            emu.step()
        finally:
            del sch.advance
    fm = [str(c) for c, f in log if TimerSource.MTI in f]
    fs = [str(c) for c, f in log if TimerSource.STI in f]
    isr = emu.memory.read_byte(IMEM + 0xFC) & 0xFF
    last = max([c for c, _ in log], default=c0)
    return f"{c0},{emu.cycle_count},{m0},{s0},{last}|{','.join(fm)}|{','.join(fs)}|{sch.next_mti},{sch.next_sti},{isr},{emu.cpu.regs.get(R.I)}"
